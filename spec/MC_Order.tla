------------------------------ MODULE MC_Order ------------------------------
(***************************************************************************)
(* C11 at design level: the validation pipeline emits the diagnostics of   *)
(* a file stage by stage; inside the import / forward-declaration stages   *)
(* the emission order is the iteration order of a hash container, i.e. ANY *)
(* permutation; the result is a STABLE sort of the emitted sequence by a   *)
(* key.  Deterministic: every emission order gives the same result.        *)
(*   KEY = "pos"  (line, column): Deterministic and Sorted hold.           *)
(*   KEY = "line" (the pinned code before fa043f5): TLC finds the          *)
(*   counterexample - two warnings of one stage on one line (negative      *)
(*   control: this run MUST report a violation).                           *)
(***************************************************************************)
EXTENDS Naturals, Sequences, FiniteSets, TLC, IOUtils

Key == IOEnv.KEY

\* a small file: diagnostics as [line, col, stage, hashed]; stage order = pipeline order;
\* hashed stages emit in any order, the others in source order
Diags == {[line |-> 1, col |-> 8, stage |-> 2, hashed |-> TRUE],     \* unused import a
          [line |-> 1, col |-> 20, stage |-> 2, hashed |-> TRUE],    \* unused import b (same line)
          [line |-> 1, col |-> 32, stage |-> 2, hashed |-> TRUE],    \* unresolved import c (same line)
          [line |-> 2, col |-> 12, stage |-> 3, hashed |-> TRUE],    \* unused forward declaration
          [line |-> 2, col |-> 30, stage |-> 3, hashed |-> TRUE],    \* unused forward declaration (same line)
          [line |-> 4, col |-> 9, stage |-> 1, hashed |-> FALSE],    \* unknown type
          [line |-> 4, col |-> 3, stage |-> 5, hashed |-> FALSE],    \* direction error earlier on that line, later stage
          [line |-> 3, col |-> 1, stage |-> 4, hashed |-> FALSE]}    \* container error

VARIABLES pending, emitted
vars == <<pending, emitted>>

Less(a, b) == IF Key = "pos" THEN a.line < b.line \/ (a.line = b.line /\ a.col < b.col) ELSE a.line < b.line

\* stable insertion sort of a sequence by Less
RECURSIVE Insert(_, _)
Insert(s, d) == IF s = <<>> THEN <<d>>
                ELSE IF Less(d, s[1]) THEN <<d>> \o s ELSE <<s[1]>> \o Insert(Tail(s), d)
RECURSIVE StableSort(_)
StableSort(s) == IF s = <<>> THEN <<>> ELSE Insert(StableSort(SubSeq(s, 1, Len(s) - 1)), s[Len(s)])
\* (inserting the last element after all elements that are not greater keeps equal keys in emission order)

Init == pending = Diags /\ emitted = <<>>

MinStage == CHOOSE s \in {d.stage : d \in pending} : \A d \in pending : s <= d.stage
Emit(d) == /\ d \in pending /\ d.stage = MinStage
           /\ (~d.hashed => \A x \in pending : x.stage = d.stage => (d.line < x.line \/ (d.line = x.line /\ d.col <= x.col)))
           /\ pending' = pending \ {d} /\ emitted' = Append(emitted, d)
Next == \E d \in pending : Emit(d)
Spec == Init /\ [][Next]_vars

Result == StableSort(emitted)
PosLess(a, b) == a.line < b.line \/ (a.line = b.line /\ a.col < b.col)
\* the one result every emission order must produce: ascending (line, column)
RECURSIVE Canon(_)
Canon(S) == IF S = {} THEN <<>> ELSE LET m == CHOOSE x \in S : \A y \in S \ {x} : PosLess(x, y) IN <<m>> \o Canon(S \ {m})

Deterministic == pending = {} => Result = Canon(Diags)
Sorted == pending = {} => \A k \in 1..(Len(Result) - 1) : ~PosLess(Result[k + 1], Result[k])
=============================================================================
