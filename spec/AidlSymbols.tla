---------------------------- MODULE AidlSymbols ----------------------------
(***************************************************************************)
(* Traversal, filtering, searching, position lookup and naming of symbols  *)
(* (C15, C16, C17), stated over the flat pre-order node list of a tree.    *)
(* A symbol is identified by the path of its node.                         *)
(***************************************************************************)
EXTENDS AidlValidate

\* indices of the direct generic parameters of type node i, in order
Gens(ns, i) == LET g1 == Child(ns, i, "g1")
                   g2 == Child(ns, i, "g2")
               IN (IF g1 = 0 THEN <<>> ELSE <<g1>>) \o (IF g2 = 0 THEN <<>> ELSE <<g2>>)

RECURSIVE TypeOrder(_, _)
\* visiting order of a type subtree: an array's element before the array, any other type
\* before its parameters; at any depth
TypeOrder(ns, i) ==
  LET gs == Gens(ns, i)
      RECURSIVE Sub(_)
      Sub(k) == IF k > Len(gs) THEN <<>> ELSE TypeOrder(ns, gs[k]) \o Sub(k + 1)
  IN IF ns[i].a = "array" THEN Sub(1) \o <<i>> ELSE <<i>> \o Sub(1)

Members(ns) == SortedSeq({i \in DOMAIN ns : Len(ns[i].p) = 2 /\ ns[i].p[1] = "item"
                                            /\ ns[i].c \in {"method", "const", "field", "elem"}})

ArgsOf(ns, m) == SortedSeq({i \in OfClass(ns, "arg") : Len(ns[i].p) = Len(ns[m].p) + 1 /\ IsPfx(ns[m].p, ns[i].p)})

MemberOrder(ns, m) ==
  LET t == Child(ns, m, "t")
      as == ArgsOf(ns, m)
      RECURSIVE Args(_)
      Args(k) == IF k > Len(as) THEN <<>>
                 ELSE <<as[k]>> \o TypeOrder(ns, Child(ns, as[k], "t")) \o Args(k + 1)
  IN <<m>> \o (IF t = 0 THEN <<>> ELSE TypeOrder(ns, t)) \o Args(1)

\* node indices in visiting order
WalkIx(ns, filter) ==
  LET item == ItemIx(ns)
      ms == Members(ns)
      RECURSIVE Deep(_)
      Deep(k) == IF k > Len(ms) THEN <<>> ELSE MemberOrder(ns, ms[k]) \o Deep(k + 1)
  IN CASE filter = "items" -> <<item>>
       [] filter = "elems" -> <<item>> \o ms
       [] OTHER -> SortedSeq(OfClass(ns, "pkg")) \o SortedSeq(OfClass(ns, "imp")) \o <<item>> \o Deep(1)

Walk(ns, filter) == LET w == WalkIx(ns, filter) IN [k \in DOMAIN w |-> ns[w[k]].p]

\* every node except forward declarations is visited exactly once at the most detailed level
\* (design-level sanity of the definition itself; checked on every judged tree)
WalkCoversTree(ns) ==
  LET w == WalkIx(ns, "all")
  IN /\ SeqToSet(w) = {i \in DOMAIN ns : ns[i].c # "fwd"}
     /\ Len(w) = Cardinality(SeqToSet(w))

\* the name a symbol reports (none for an unnamed argument)
SymName(n) == CASE n.c = "imp" -> <<QN(n)>>
                [] n.c = "arg" -> IF n.b = "n" THEN <<n.n>> ELSE <<>>
                [] OTHER -> <<n.n>>

Pred(ns, w, k, pd) ==
  CASE pd.kind = "nth" -> k = pd.k
    [] pd.kind = "class" -> ns[w[k]].c = pd.c
    [] pd.kind = "name" -> SymName(ns[w[k]]) = <<pd.n>>
    [] pd.kind = "all" -> TRUE
    [] OTHER -> FALSE

FilterWith(ns, w, pd) ==
  LET S == SortedSeq({k \in DOMAIN w : Pred(ns, w, k, pd)})
  IN [j \in DOMAIN S |-> ns[w[S[j]]].p]

FindWith(ns, w, pd) ==
  LET S == {k \in DOMAIN w : Pred(ns, w, k, pd)}
  IN IF S = {} THEN <<>> ELSE <<ns[w[CHOOSE k \in S : \A x \in S : k <= x]].p>>

FilterPaths(ns, filter, pd) == FilterWith(ns, WalkIx(ns, filter), pd)
FindPath(ns, filter, pd) == FindWith(ns, WalkIx(ns, filter), pd)

\* C16: inclusive at both ends, on the REPORTED name range
Contains(r, line, col) ==
  /\ (r[3] < line \/ (r[3] = line /\ r[4] <= col))
  /\ (line < r[5] \/ (line = r[5] /\ col <= r[6]))

\* w: the visiting order (WalkIx), computed once per query batch
LookupWith(ns, w, line, col) ==
  LET S == {k \in DOMAIN w : Contains(ns[w[k]].sym, line, col)}
  IN IF S = {} THEN <<>> ELSE <<ns[w[CHOOSE k \in S : \A x \in S : k <= x]].p>>

LookupPath(ns, filter, line, col) == LookupWith(ns, WalkIx(ns, filter), line, col)

WalkTypesPaths(ns) ==
  LET ms == Members(ns)
      OneM(m) == LET t == Child(ns, m, "t")
                     as == ArgsOf(ns, m)
                     RECURSIVE Args(_)
                     Args(k) == IF k > Len(as) THEN <<>> ELSE TypeOrder(ns, Child(ns, as[k], "t")) \o Args(k + 1)
                 IN (IF t = 0 THEN <<>> ELSE TypeOrder(ns, t)) \o Args(1)
      RECURSIVE All(_)
      All(k) == IF k > Len(ms) THEN <<>> ELSE OneM(ms[k]) \o All(k + 1)
      w == All(1)
  IN [k \in DOMAIN w |-> ns[w[k]].p]

WalkMethodsPaths(ns) == LET M == SortedSeq(OfClass(ns, "method")) IN [k \in DOMAIN M |-> ns[M[k]].p]

WalkArgsPairs(ns) ==
  LET A == SortedSeq(OfClass(ns, "arg"))
  IN [k \in DOMAIN A |-> <<SubSeq(ns[A[k]].p, 1, Len(ns[A[k]].p) - 1), ns[A[k]].p>>]

-----------------------------------------------------------------------------
(* C17: names *)
OwnerName(ns) == ns[ItemIx(ns)].n

\* expected qualified name of the symbol of node n; <<"*">> = not stated by the property
QNameOf(ns, n) ==
  CASE n.c = "pkg" -> <<n.n>>
    [] n.c = "imp" -> <<QN(n)>>
    [] n.c = "item" -> <<KeyOfNodes(ns)>>
    [] n.c \in {"method", "const", "field", "elem"} -> <<OwnerName(ns) \o "::" \o n.n>>
    [] n.c = "type" /\ Len(n.rk) = 3 /\ n.rk[1] = "item" /\ n.rk[2] \in {"interface", "parcelable", "enum"} -> <<n.rk[3]>>
    [] OTHER -> <<"*">>

\* the project item a type reference resolves to under the scoping rule of C05 (keys: key -> kinds), if that
\* is determined; "" otherwise
ResolvedItemKey(ns, n, keys) ==
  LET A == AllowedRK(n.n, ns, keys)
  IN IF Cardinality(A) = 1 THEN
        LET rk == CHOOSE x \in A : TRUE
        IN IF rk[1] = "item" /\ rk[2] \in {"interface", "parcelable", "enum"} THEN rk[3] ELSE ""
     ELSE ""

\* with the project keys known: a type symbol that resolves to a project item reports that item's key
QNameOfK(ns, n, keys) ==
  IF n.c = "type" /\ n.a = "named" /\ ResolvedItemKey(ns, n, keys) # "" THEN <<ResolvedItemKey(ns, n, keys)>>
  ELSE IF n.c = "type" THEN <<"*">>
  ELSE QNameOf(ns, n)


\* expected plain name; <<"*">> = not stated
PlainNameOf(n) ==
  CASE n.c \in {"item", "method", "const", "field", "elem"} -> <<n.n>>
    [] n.c = "arg" /\ n.b = "n" -> <<n.n>>
    [] OTHER -> <<"*">>

\* a type that the tree says resolves to a project item (interface / parcelable / enum) names the key of an item
\* of that kind which some file of the project really registers
ResolvedKeysExist(ns, keys) ==
  \A i \in NamedTypes(ns) :
     (Len(ns[i].rk) = 3 /\ ns[i].rk[1] = "item" /\ ns[i].rk[2] \in {"interface", "parcelable", "enum"})
        => (ns[i].rk[3] \in DOMAIN keys /\ ns[i].rk[2] \in keys[ns[i].rk[3]])

NamesOK(ns, syms, keys) ==
  /\ ResolvedKeysExist(ns, keys)
  /\ \A k \in DOMAIN syms :
     LET i == AtPath(ns, syms[k].p) IN
     i # 0 => /\ (QNameOfK(ns, ns[i], keys) = <<"*">> \/ syms[k].qname = QNameOfK(ns, ns[i], keys))
              /\ (PlainNameOf(ns[i]) = <<"*">> \/ syms[k].name = PlainNameOf(ns[i]))

\* with the source known (sns: the specification's own nodes of that document): package, imports, item and
\* members are named as the SOURCE writes them (dotted names assembled from the identifiers, whatever lies between)
NamesOKSrc(sns, syms) ==
  \A k \in DOMAIN syms :
     LET i == AtPath(sns, syms[k].p) IN
     (i # 0 /\ sns[i].c # "type") =>
        /\ (QNameOf(sns, sns[i]) = <<"*">> \/ syms[k].qname = QNameOf(sns, sns[i]))
        /\ (PlainNameOf(sns[i]) = <<"*">> \/ syms[k].name = PlainNameOf(sns[i]))

-----------------------------------------------------------------------------
(* Extensions beyond the listed properties (DESIGN section 11): details / signature strings *)
RECURSIVE TypeStr(_, _)
TypeStr(ns, i) ==
  LET gs == Gens(ns, i) IN
  IF gs = <<>> THEN ns[i].n
  ELSE ns[i].n \o "<" \o TypeStr(ns, gs[1]) \o (IF Len(gs) = 2 THEN ", " \o TypeStr(ns, gs[2]) ELSE "") \o ">"

ArgStr(ns, ai, withName) ==
  (IF ns[ai].a = "" THEN "" ELSE ns[ai].a \o " ") \o TypeStr(ns, Child(ns, ai, "t"))
  \o (IF withName /\ ns[ai].b = "n" THEN " " \o ns[ai].n ELSE "")

RECURSIVE JoinArgs(_, _, _, _)
JoinArgs(ns, as, k, withName) ==
  IF k > Len(as) THEN ""
  ELSE ArgStr(ns, as[k], withName) \o (IF k < Len(as) THEN ", " ELSE "") \o JoinArgs(ns, as, k + 1, withName)

SignatureOf(ns, i) ==
  LET n == ns[i] IN
  CASE n.c = "pkg" -> "package " \o n.n
    [] n.c = "imp" -> "import " \o QN(n)
    [] n.c = "item" -> n.a \o " " \o n.n
    [] n.c = "method" -> TypeStr(ns, Child(ns, i, "t")) \o " " \o n.n \o "(" \o JoinArgs(ns, ArgsOf(ns, i), 1, TRUE) \o ")"
    [] n.c = "arg" -> ArgStr(ns, i, TRUE)
    [] n.c = "const" -> "const " \o TypeStr(ns, Child(ns, i, "t")) \o " " \o n.n
    [] n.c = "field" -> TypeStr(ns, Child(ns, i, "t")) \o " " \o n.n
    [] n.c = "elem" -> n.n
    [] n.c = "type" -> TypeStr(ns, i)

DetailsOf(ns, i) ==
  LET n == ns[i] IN
  CASE n.c = "pkg" -> <<"package">>
    [] n.c = "imp" -> <<"import">>
    [] n.c = "item" -> <<n.a>>
    [] n.c = "method" -> <<TypeStr(ns, Child(ns, i, "t")) \o "(" \o JoinArgs(ns, ArgsOf(ns, i), 1, FALSE) \o ")">>
    [] n.c = "arg" -> <<ArgStr(ns, i, FALSE)>>
    [] n.c = "const" -> <<"const " \o TypeStr(ns, Child(ns, i, "t"))>>
    [] n.c = "field" -> <<TypeStr(ns, Child(ns, i, "t"))>>
    [] n.c = "elem" -> <<>>
    [] n.c = "type" -> <<TypeStr(ns, i)>>

StringsOK(ns, syms) ==
  \A k \in DOMAIN syms :
     LET i == AtPath(ns, syms[k].p) IN
     i # 0 => syms[k].sig = SignatureOf(ns, i) /\ syms[k].details = DetailsOf(ns, i)
=============================================================================
