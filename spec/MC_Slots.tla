------------------------------ MODULE MC_Slots ------------------------------
(***************************************************************************)
(* C03 / C04 / C20: every token string up to length DEPTH over the         *)
(* grammar's vocabulary (34 terminals + an INTEGER that does not fit 32    *)
(* bits, one canonical lexeme each) substituted into each syntactic slot   *)
(* of a well-formed frame.  TLC enumerates the strings, decides each with  *)
(* the specification's own tree builder (verdict and first offending       *)
(* token) and emits the scenario; the replay compares the library.         *)
(***************************************************************************)
EXTENDS AidlParse, AidlGrammar, Json, IOUtils

Depth == atoi(IOEnv.DEPTH)

Lexeme == [PACKAGE |-> "package", IMPORT |-> "import", INTERFACE |-> "interface", PARCELABLE |-> "parcelable",
           ENUM |-> "enum", ONEWAY |-> "oneway", CONST |-> "const", DIRECTION |-> "in", VOID |-> "void",
           PRIMITIVE |-> "int", STRING |-> "String", CHAR_SEQUENCE |-> "CharSequence", LIST |-> "List", MAP |-> "Map",
           QUOTED_STRING |-> "\"s\"", BOOLEAN |-> "true", ANNOTATION |-> "@A", IDENT |-> "x", INTEGER |-> "1",
           FLOAT |-> "1.5", RESERVED_KEYWORD |-> "class", BIGINT |-> "99999999999"]
Signs == {";", ",", "{", "}", "(", ")", "[", "]", "<", ">", "=", ".", "-"}
Vocab == DOMAIN Lexeme \cup Signs

Tok(v) == IF v \in Signs THEN <<v, v>> ELSE IF v = "BIGINT" THEN <<"INTEGER", Lexeme[v]>> ELSE <<v, Lexeme[v]>>

\* frames: prefix and suffix around the slot, written as vocabulary symbols
W(s) == [j \in DOMAIN s |-> Tok(s[j])]
Pk == <<"PACKAGE", "IDENT", ";">>
Frames ==
  [pkgname  |-> [pre |-> <<"PACKAGE">>, suf |-> <<";", "INTERFACE", "IDENT", "{", "}">>],
   import   |-> [pre |-> Pk \o <<"IMPORT">>, suf |-> <<";", "INTERFACE", "IDENT", "{", "}">>],
   fwd      |-> [pre |-> Pk \o <<"PARCELABLE">>, suf |-> <<";", "INTERFACE", "IDENT", "{", "}">>],
   header   |-> [pre |-> Pk, suf |-> <<"{", "}">>],
   imember  |-> [pre |-> Pk \o <<"INTERFACE", "IDENT", "{">>, suf |-> <<"}">>],
   pmember  |-> [pre |-> Pk \o <<"PARCELABLE", "IDENT", "{">>, suf |-> <<"}">>],
   ebody    |-> [pre |-> Pk \o <<"ENUM", "IDENT", "{">>, suf |-> <<"}">>],
   arglist  |-> [pre |-> Pk \o <<"INTERFACE", "IDENT", "{", "VOID", "IDENT", "(">>, suf |-> <<")", ";", "}">>],
   arg      |-> [pre |-> Pk \o <<"INTERFACE", "IDENT", "{", "VOID", "IDENT", "(", "DIRECTION">>, suf |-> <<"IDENT", ")", ";", "}">>],
   generic  |-> [pre |-> Pk \o <<"INTERFACE", "IDENT", "{", "LIST", "<">>, suf |-> <<">", "IDENT", "(", ")", ";", "}">>],
   aftertype |-> [pre |-> Pk \o <<"INTERFACE", "IDENT", "{", "PRIMITIVE">>, suf |-> <<"IDENT", "(", ")", ";", "}">>],
   code     |-> [pre |-> Pk \o <<"INTERFACE", "IDENT", "{", "VOID", "IDENT", "(", ")">>, suf |-> <<";", "}">>],
   constval |-> [pre |-> Pk \o <<"INTERFACE", "IDENT", "{", "CONST", "PRIMITIVE", "IDENT", "=">>, suf |-> <<";", "}">>],
   fieldval |-> [pre |-> Pk \o <<"PARCELABLE", "IDENT", "{", "PRIMITIVE", "IDENT">>, suf |-> <<";", "}">>],
   annparams |-> [pre |-> Pk \o <<"INTERFACE", "IDENT", "{", "ANNOTATION", "(">>, suf |-> <<")", "VOID", "IDENT", "(", ")", ";", "}">>],
   afteritem |-> [pre |-> Pk \o <<"INTERFACE", "IDENT", "{", "}">>, suf |-> <<>>]]

\* C14: a garbage member G followed by its normal terminator (the first symbol of the suffix), between
\* well-formed siblings; G ranges over the vocabulary without the item's terminators and braces
M1 == <<"VOID", "IDENT", "(", ")", ";">>
M2 == <<"ANNOTATION", "ONEWAY", "VOID", "IDENT", "(", "DIRECTION", "PRIMITIVE", "IDENT", ")", "=", "INTEGER", ";">>
C1 == <<"CONST", "PRIMITIVE", "IDENT", "=", "INTEGER", ";">>
F1 == <<"PRIMITIVE", "IDENT", ";">>
F2 == <<"ANNOTATION", "LIST", "<", "STRING", ">", "IDENT", "=", "{", "}", ";">>
IHead == Pk \o <<"INTERFACE", "IDENT", "{">>
PHead == Pk \o <<"PARCELABLE", "IDENT", "{">>
EHead == Pk \o <<"ENUM", "IDENT", "{">>
RecFrames ==
  [ri0 |-> [pre |-> IHead, suf |-> <<";">> \o M1 \o M2 \o <<"}">>],
   ri1 |-> [pre |-> IHead \o M1, suf |-> <<";">> \o M2 \o <<"}">>],
   ri2 |-> [pre |-> IHead \o M1 \o C1, suf |-> <<";">> \o <<"}">>],
   ri3 |-> [pre |-> IHead \o M2, suf |-> <<";">> \o C1 \o M1 \o <<"}">>],
   ri4 |-> [pre |-> IHead, suf |-> <<";", "}">>],
   rp0 |-> [pre |-> PHead, suf |-> <<";">> \o F1 \o F2 \o <<"}">>],
   rp1 |-> [pre |-> PHead \o F1, suf |-> <<";">> \o C1 \o <<"}">>],
   rp2 |-> [pre |-> PHead \o F2 \o F1, suf |-> <<";", "}">>],
   re0 |-> [pre |-> EHead, suf |-> <<",", "IDENT", ",", "IDENT", "}">>],
   re1 |-> [pre |-> EHead \o <<"IDENT", ",">>, suf |-> <<",", "IDENT", "=", "INTEGER", "}">>],
   re2 |-> [pre |-> EHead \o <<"IDENT", "=", "INTEGER", ",", "IDENT", ",">>, suf |-> <<",", "}">>]]

Recover == IOEnv.MODE = "recover"
AllFrames == IF Recover THEN RecFrames ELSE Frames
SlotNames == IF IOEnv.SLOT = "all" THEN DOMAIN AllFrames ELSE {IOEnv.SLOT}
\* symbols a garbage member may use in slot s
RecVocab(s) == IF s \in {"re0", "re1", "re2"} THEN Vocab \ {",", "{", "}"} ELSE Vocab \ {";", "{", "}"}

VARIABLES slot, fill
vars == <<slot, fill>>

Init == slot \in SlotNames /\ fill = <<>>
Next == Len(fill) < Depth /\ \E v \in (IF Recover THEN RecVocab(slot) ELSE Vocab) : fill' = Append(fill, v) /\ UNCHANGED slot
Spec == Init /\ [][Next]_vars

DocOf(s, f) == W(AllFrames[s].pre) \o W(f) \o W(AllFrames[s].suf)

\* the specification's own verdict, attached to the scenario (the replay re-derives it from the pieces)
Verdict(s, f) == LET tk == [k |-> [j \in DOMAIN DocOf(s, f) |-> DocOf(s, f)[j][1]],
                            x |-> [j \in DOMAIN DocOf(s, f) |-> DocOf(s, f)[j][2]],
                            pi |-> [j \in DOMAIN DocOf(s, f) |-> j]]
                     pr == ParseToks(tk)
                 IN [ok |-> pr.ok /\ BadCodes(tk, pr.ns) = {}, err |-> pr.err]

Emit == PrintT("SCEN " \o ToJson([slot |-> slot, fill |-> fill, v |-> Verdict(slot, fill)]))

\* the two statements of the grammar agree on every enumerated token string: the declarative pushdown machine
\* (AidlGrammar) and the deterministic tree builder (AidlParse) give the same verdict and the same first
\* offending token
GrammarAgrees ==
  LET doc == DocOf(slot, fill)
      kinds == [j \in DOMAIN doc |-> doc[j][1]]
      tk == [k |-> kinds, x |-> [j \in DOMAIN doc |-> doc[j][2]], pi |-> [j \in DOMAIN doc |-> j]]
      pr == ParseToks(tk)
      g == Recognise(kinds)
  IN pr.ok = g.ok /\ pr.err = g.err

EmitFrames == PrintT("FRAMES " \o ToJson([s \in DOMAIN AllFrames |-> [pre |-> W(AllFrames[s].pre), suf |-> W(AllFrames[s].suf)]]))
              /\ PrintT("LEX " \o ToJson([v \in Vocab |-> Tok(v)]))
ASSUME EmitFrames
=============================================================================
