SPECIFICATION Spec
INVARIANTS Emit GrammarAgrees
CHECK_DEADLOCK FALSE
