----------------------------- MODULE AidlStore -----------------------------
(***************************************************************************)
(* The system: parser instances, each holding a map id -> content.        *)
(* Contents are opaque values here (a text identity).  The four public    *)
(* transitions of the library and the three outcomes of add_file are the  *)
(* actions; validation reads `store` and never changes it.                *)
(***************************************************************************)
EXTENDS Naturals, Sequences, FiniteSets, TLC

VARIABLE store          \* instance -> (id -> content)

Put(f, k, v) == [x \in DOMAIN f \cup {k} |-> IF x = k THEN v ELSE f[x]]
Del(f, k) == [x \in DOMAIN f \ {k} |-> f[x]]
Empty == <<>>

Has(i) == i \in DOMAIN store

StoreInit == store = Empty

\* Parser::new(): a new (or re-created) instance holds nothing
New(i) == store' = Put(store, i, Empty)

\* add_content: total - enabled for EVERY content, no precondition (C01);
\* the slot of `id` becomes c, other slots are untouched (C12)
AddContent(i, id, c) == Has(i) /\ store' = [store EXCEPT ![i] = Put(@, id, c)]

\* add_file on a readable UTF-8 file is add_content(path, text)
AddFileOk(i, path, c) == AddContent(i, path, c)

\* add_file on a missing / non-UTF-8 file reports an I/O error and changes nothing
AddFileMissing(i, path) == Has(i) /\ UNCHANGED store
AddFileBadUtf8(i, path) == Has(i) /\ UNCHANGED store

\* remove_content: absent ids are a no-op
Remove(i, id) == Has(i) /\ store' = [store EXCEPT ![i] = Del(@, id)]

\* validate and every read-only query
ReadOnly(i) == Has(i) /\ UNCHANGED store
=============================================================================
