----------------------------- MODULE AidlLayout -----------------------------
(***************************************************************************)
(* Positions (C04).  A document is a sequence of pieces; a piece is        *)
(*   <<kind, text>>            plain printable ASCII without line breaks,  *)
(*   <<kind, text, atoms>>     any text, given as a sequence of atoms,     *)
(*   <<"DOC", text, atoms, body>>  a doc comment with its structure.       *)
(* An atom is a 1-character string (printable ASCII) or the name of a      *)
(* character (AtomTable).  Offsets are UTF-8 bytes; a position is          *)
(* <<offset, line, column>> with line = 1 + number of LF before it and     *)
(* column = 1 + number of grapheme clusters since the line start.          *)
(***************************************************************************)
EXTENDS AidlParse

\* name -> [b: UTF-8 length, cls: "n" ordinary | "x" extends the previous cluster | "c" control | "lf"]
AtomTable ==
  [LF |-> [b |-> 1, cls |-> "lf"], CR |-> [b |-> 1, cls |-> "c"], TAB |-> [b |-> 1, cls |-> "c"],
   VT |-> [b |-> 1, cls |-> "c"], FF |-> [b |-> 1, cls |-> "c"], SP |-> [b |-> 1, cls |-> "n"],
   NBSP |-> [b |-> 2, cls |-> "n"], IDSP |-> [b |-> 3, cls |-> "n"], ENSP |-> [b |-> 3, cls |-> "n"],
   LSEP |-> [b |-> 3, cls |-> "c"], PSEP |-> [b |-> 3, cls |-> "c"], NEL |-> [b |-> 2, cls |-> "c"],
   EACUTE |-> [b |-> 2, cls |-> "n"], UUML |-> [b |-> 2, cls |-> "n"], CJK |-> [b |-> 3, cls |-> "n"],
   KANA |-> [b |-> 3, cls |-> "n"], EMOJI |-> [b |-> 4, cls |-> "n"], COMB |-> [b |-> 2, cls |-> "x"],
   ARDIGIT |-> [b |-> 2, cls |-> "n"], FWDIGIT |-> [b |-> 3, cls |-> "n"]]

AtomInfo(x) == IF Len(x) = 1 THEN [b |-> 1, cls |-> "n"] ELSE AtomTable[x]

HasAtoms(pc) == Len(pc) >= 3 /\ pc[3] # <<>>

\* positions inside a piece, relative to a start position <<o, l, c>>:
\* sequence of the positions BEFORE each character, followed by the position after the last one
RECURSIVE AtomPos(_, _, _, _)
\* at: atoms, k: next atom, cur: <<o,l,c>> before atom k, prevcls: class of the previous atom ("" at piece start)
AtomPos(at, k, cur, prevcls) ==
  IF k > Len(at) THEN <<cur>>
  ELSE LET inf == AtomInfo(at[k])
           joins == inf.cls = "x" /\ prevcls \in {"n", "x"}
           nxt == IF inf.cls = "lf" THEN <<cur[1] + inf.b, cur[2] + 1, 1>>
                  ELSE <<cur[1] + inf.b, cur[2], IF joins THEN cur[3] ELSE cur[3] + 1>>
       IN <<cur>> \o AtomPos(at, k + 1, nxt, inf.cls)

PiecePositions(pc, start) ==
  IF HasAtoms(pc) THEN AtomPos(pc[3], 1, start, "")
  ELSE [j \in 1..(Len(pc[2]) + 1) |-> <<start[1] + j - 1, start[2], start[3] + j - 1>>]

PieceEnd(pc, start) ==
  IF HasAtoms(pc) THEN LET ps == AtomPos(pc[3], 1, start, "") IN ps[Len(ps)]
  ELSE <<start[1] + Len(pc[2]), start[2], start[3] + Len(pc[2])>>

RECURSIVE TabR(_, _, _)
\* piece table: sequence of [s |-> start position, e |-> end position]
TabR(d, i, start) ==
  IF i > Len(d) THEN <<>>
  ELSE LET e == PieceEnd(d[i], start) IN <<[s |-> start, e |-> e]>> \o TabR(d, i + 1, e)

Tab(d) == TabR(d, 1, <<0, 1, 1>>)

\* every character boundary of the document as <<offset, line, column>>
PosSet(d, tab) == TLCEval(UNION {LET pp == PiecePositions(d[i], tab[i].s) IN {pp[j] : j \in DOMAIN pp} : i \in DOMAIN d}
                          \cup {<<0, 1, 1>>})

\* a reported range <<so, eo, sl, sc, el, ec>> refers to real source text
RangeWF(r, ps) == /\ Len(r) = 6 /\ r[1] <= r[2]
                  /\ <<r[1], r[3], r[4]>> \in ps
                  /\ <<r[2], r[5], r[6]>> \in ps

\* range spanning tokens a..b (token indices)
Span(tk, tab, a, b) == LET s == tab[tk.pi[a]].s
                           e == tab[tk.pi[b]].e
                       IN <<s[1], e[1], s[2], s[3], e[2], e[3]>>

StartOf(tk, tab, a) == tab[tk.pi[a]].s
EndOf(tk, tab, a) == tab[tk.pi[a]].e

\* the end of input as an (empty) range: right after the last token, or offset 0 if there is none
EofRange(tk, tab) == IF Len(tk.pi) = 0 THEN <<0, 0, 1, 1, 1, 1>>
                     ELSE LET e == tab[tk.pi[Len(tk.pi)]].e IN <<e[1], e[1], e[2], e[3], e[2], e[3]>>

-----------------------------------------------------------------------------
(* Expected ranges of a node (sn: specification node with token indices, on: observed node) *)

\* the construct's first token - for an argument that is its direction or, failing that, its first annotation
\* (an argument's annotations stand inside it, after the direction); for every other construct the first token
\* after its annotations - optionally extended backwards to the end of the last annotation
FullStarts(sn, tk, tab) == (IF sn.c = "arg" THEN {StartOf(tk, tab, sn.x.f0)} ELSE {StartOf(tk, tab, sn.x.f1)})
                           \cup (IF sn.x.la > 0 /\ sn.c # "arg" THEN {EndOf(tk, tab, sn.x.la)} ELSE {})
FullEnds(sn, tk, tab) == {EndOf(tk, tab, sn.x.f2)} \cup (IF sn.x.ft > 0 THEN {EndOf(tk, tab, sn.x.ft)} ELSE {})

NodeRangesOK(sn, on, tk, tab) ==
  /\ (sn.x.s1 > 0 => on.sym = Span(tk, tab, sn.x.s1, sn.x.s2))
  /\ <<on.full[1], on.full[3], on.full[4]>> \in FullStarts(sn, tk, tab)
  /\ <<on.full[2], on.full[5], on.full[6]>> \in FullEnds(sn, tk, tab)
  /\ (sn.x.dk > 0 => on.dir = Span(tk, tab, sn.x.dk, sn.x.dk))
  /\ (sn.x.ok > 0 /\ sn.c = "method" => on.owr = Span(tk, tab, sn.x.ok, sn.x.ok))

\* all ranges a node carries
RangesOf(on) == {r \in {on.sym, on.full, on.dir, on.owr, on.code} : r # <<>>}

Within(a, b) == b[1] <= a[1] /\ a[2] <= b[2]

\* name inside full; children inside the parent; siblings disjoint and increasing
NestingOK(ons) ==
  /\ \A i \in DOMAIN ons : Within(ons[i].sym, ons[i].full) \/ (ons[i].c = "arg" /\ ons[i].b = "")
  /\ \A i, j \in DOMAIN ons :
        (Len(ons[j].p) = Len(ons[i].p) + 1 /\ SubSeq(ons[j].p, 1, Len(ons[i].p)) = ons[i].p)
          => Within(ons[j].full, ons[i].full)
  /\ \A i, j \in DOMAIN ons :
        (i < j /\ Len(ons[i].p) = Len(ons[j].p) /\ Front(ons[i].p) = Front(ons[j].p))
          => ons[i].full[2] <= ons[j].full[1]

AllRangesWF(ons, ds, ps) ==
  /\ \A i \in DOMAIN ons : \A r \in RangesOf(ons[i]) : RangeWF(r, ps)
  /\ \A k \in DOMAIN ds : RangeWF(ds[k].r, ps) /\ \A j \in DOMAIN ds[k].rel : RangeWF(ds[k].rel[j].r, ps)

-----------------------------------------------------------------------------
(* Documentation (C18): the doc comment that directly precedes a construct *)

RECURSIVE DocPieceBefore(_, _)
\* scanning backwards from piece index i-1 over white space and ordinary comments
DocPieceBefore(d, i) ==
  IF i < 1 THEN 0
  ELSE IF d[i][1] \in {"WS", "LCOM", "BCOM"} THEN DocPieceBefore(d, i - 1)
  ELSE IF d[i][1] = "DOC" THEN i
  ELSE 0

RECURSIVE JoinWith(_, _)
JoinWith(ws, sep) == IF ws = <<>> THEN ""
                     ELSE IF Len(ws) = 1 THEN ws[1] ELSE ws[1] \o sep \o JoinWith(Tail(ws), sep)

\* body = [paras |-> <<para, ...>>, tags |-> <<words, ...>>]; para = <<line, ...>>; line = <<word, ...>>;
\* a tag clause is its words, the first of which starts with "@"
MapSeq(s, Op(_)) == [k \in DOMAIN s |-> Op(s[k])]
LineText(line) == JoinWith(line, " ")
ParaText(para) == JoinWith(MapSeq(para, LineText), " ")
DocText(body) == JoinWith(MapSeq(body.paras, ParaText) \o MapSeq(body.tags, LineText), "\n")

\* expected documentation of the construct whose first token (incl. annotations / direction) is f0
DocFor(d, tk, f0) ==
  LET pi == DocPieceBefore(d, tk.pi[f0] - 1)
  IN IF pi = 0 THEN <<>> ELSE <<DocText(d[pi][4])>>

Documentable == {"item", "method", "const", "field", "elem", "arg"}

\* (a doc-comment piece without a structured body - produced by the specification's own lexer from raw
\* characters - says which construct it documents but not what the normalised text is: presence only)
DocsOK(sns, ons, d, tk) ==
  \A i \in DOMAIN sns : sns[i].c \in Documentable =>
     LET pi == DocPieceBefore(d, tk.pi[sns[i].x.f0] - 1)
     IN IF pi # 0 /\ Len(d[pi]) < 4 THEN ons[i].doc # <<>>
        ELSE ons[i].doc = DocFor(d, tk, sns[i].x.f0)
=============================================================================
