SPECIFICATION Spec
INVARIANTS Emit MainPresent
CHECK_DEADLOCK FALSE
