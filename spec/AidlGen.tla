------------------------------- MODULE AidlGen -------------------------------
(***************************************************************************)
(* Unparse: abstract descriptions of files -> token sequences.             *)
(* A token is <<kind, text>> with the terminal names of the grammar.       *)
(* Used by the bounded models to emit concrete documents for the replay.   *)
(***************************************************************************)
EXTENDS Naturals, Sequences, TLC

Tk(k, t) == <<<<k, t>>>>
Sg(s) == Tk(s, s)

RECURSIVE Dotted(_)
\* <<"p","q">> -> p . q
Dotted(q) == IF Len(q) = 1 THEN Tk("IDENT", q[1])
             ELSE Tk("IDENT", q[1]) \o Sg(".") \o Dotted(Tail(q))

RECURSIVE JoinDots(_)
JoinDots(q) == IF Len(q) = 1 THEN q[1] ELSE q[1] \o "." \o JoinDots(Tail(q))

\* abstract types:
\*   [k |-> "void"] [k |-> "prim", n] [k |-> "string"] [k |-> "charseq"] [k |-> "named", q]
\*   [k |-> "array", e] [k |-> "list", e] [k |-> "rawlist"] [k |-> "map", key, val] [k |-> "rawmap"]
RECURSIVE TypeToks(_)
TypeToks(t) ==
  CASE t.k = "void" -> Tk("VOID", "void")
    [] t.k = "prim" -> Tk("PRIMITIVE", t.n)
    [] t.k = "string" -> Tk("STRING", "String")
    [] t.k = "charseq" -> Tk("CHAR_SEQUENCE", "CharSequence")
    [] t.k = "named" -> Dotted(t.q)
    [] t.k = "array" -> TypeToks(t.e) \o Sg("[") \o Sg("]")
    [] t.k = "list" -> Tk("LIST", "List") \o Sg("<") \o TypeToks(t.e) \o Sg(">")
    [] t.k = "rawlist" -> Tk("LIST", "List")
    [] t.k = "map" -> Tk("MAP", "Map") \o Sg("<") \o TypeToks(t.key) \o Sg(",") \o TypeToks(t.val) \o Sg(">")
    [] t.k = "rawmap" -> Tk("MAP", "Map")

Void == [k |-> "void"]
Prim(n) == [k |-> "prim", n |-> n]
Str == [k |-> "string"]
CharSeq == [k |-> "charseq"]
Named(q) == [k |-> "named", q |-> q]
Arr(e) == [k |-> "array", e |-> e]
Lst(e) == [k |-> "list", e |-> e]
RawList == [k |-> "rawlist"]
Mp(a, b) == [k |-> "map", key |-> a, val |-> b]
RawMap == [k |-> "rawmap"]

\* args: [dir |-> ""|"in"|"out"|"inout", ty, name |-> "" or ident]
ArgToks(a) == (IF a.dir = "" THEN <<>> ELSE Tk("DIRECTION", a.dir))
              \o TypeToks(a.ty)
              \o (IF a.name = "" THEN <<>> ELSE Tk("IDENT", a.name))

RECURSIVE ArgsToks(_)
ArgsToks(as) == IF as = <<>> THEN <<>>
                ELSE IF Len(as) = 1 THEN ArgToks(as[1])
                ELSE ArgToks(as[1]) \o Sg(",") \o ArgsToks(Tail(as))

MemberToks(m) ==
  CASE m.k = "method" ->
         (IF m.ow THEN Tk("ONEWAY", "oneway") ELSE <<>>) \o TypeToks(m.ret) \o Tk("IDENT", m.name)
         \o Sg("(") \o ArgsToks(m.args) \o Sg(")")
         \o (IF m.code = "" THEN <<>> ELSE Sg("=") \o Tk("INTEGER", m.code)) \o Sg(";")
    [] m.k = "const" ->
         Tk("CONST", "const") \o TypeToks(m.ty) \o Tk("IDENT", m.name) \o Sg("=") \o Tk("INTEGER", "1") \o Sg(";")
    [] m.k = "field" -> TypeToks(m.ty) \o Tk("IDENT", m.name) \o Sg(";")

Method(ow, ret, name, args, code) == [k |-> "method", ow |-> ow, ret |-> ret, name |-> name, args |-> args, code |-> code]
Const(ty, name) == [k |-> "const", ty |-> ty, name |-> name]
Field(ty, name) == [k |-> "field", ty |-> ty, name |-> name]
Arg(dir, ty, name) == [dir |-> dir, ty |-> ty, name |-> name]

RECURSIVE MembersToks(_)
MembersToks(ms) == IF ms = <<>> THEN <<>> ELSE MemberToks(ms[1]) \o MembersToks(Tail(ms))

RECURSIVE ElemsToks(_)
ElemsToks(es) == IF es = <<>> THEN <<>>
                 ELSE IF Len(es) = 1 THEN Tk("IDENT", es[1])
                 ELSE Tk("IDENT", es[1]) \o Sg(",") \o ElemsToks(Tail(es))

RECURSIVE ImportsToks(_)
ImportsToks(is) == IF is = <<>> THEN <<>>
                   ELSE Tk("IMPORT", "import") \o Dotted(is[1]) \o Sg(";") \o ImportsToks(Tail(is))

RECURSIVE FwdsToks(_)
FwdsToks(fs) == IF fs = <<>> THEN <<>>
                ELSE Tk("PARCELABLE", "parcelable") \o Dotted(fs[1]) \o Sg(";") \o FwdsToks(Tail(fs))

\* file: [id, pkg, imports, fwds, kind, name, ow, members (or enum element names)]
FileToks(f) ==
  Tk("PACKAGE", "package") \o Dotted(f.pkg) \o Sg(";")
  \o ImportsToks(f.imports) \o FwdsToks(f.fwds)
  \o (CASE f.kind = "interface" ->
             (IF f.ow THEN Tk("ONEWAY", "oneway") ELSE <<>>) \o Tk("INTERFACE", "interface")
             \o Tk("IDENT", f.name) \o Sg("{") \o MembersToks(f.members) \o Sg("}")
        [] f.kind = "parcelable" ->
             Tk("PARCELABLE", "parcelable") \o Tk("IDENT", f.name) \o Sg("{") \o MembersToks(f.members) \o Sg("}")
        [] f.kind = "enum" ->
             Tk("ENUM", "enum") \o Tk("IDENT", f.name) \o Sg("{") \o ElemsToks(f.members) \o Sg("}"))

File(id, pkg, imports, fwds, kind, name, ow, members) ==
  [id |-> id, pkg |-> pkg, imports |-> imports, fwds |-> fwds, kind |-> kind, name |-> name, ow |-> ow, members |-> members]

\* small item files used as the "rest of the project"
ItemFile(id, pkg, kind, name) ==
  File(id, pkg, <<>>, <<>>, kind, name, FALSE,
       CASE kind = "interface" -> <<Method(FALSE, Void, "ping", <<>>, "")>>
         [] kind = "parcelable" -> <<Field(Prim("int"), "x")>>
         [] kind = "enum" -> <<"A", "B">>)

Doc(f) == [id |-> f.id, toks |-> FileToks(f)]
=============================================================================
