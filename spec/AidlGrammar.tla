----------------------------- MODULE AidlGrammar -----------------------------
(***************************************************************************)
(* The supported grammar AS DATA (one production per line, written next to *)
(* the rule of src/aidl.lalrpop it mirrors) and a generic set-of-stacks    *)
(* pushdown machine over it.  This is a second, independent statement of   *)
(* the language: AidlParse is a hand-written deterministic tree builder,   *)
(* this module is declarative.  TLC checks on every bounded token string   *)
(* (MC_Slots, invariant GrammarAgrees) that the two agree on the verdict   *)
(* AND on the first token that makes the prefix non-viable.                *)
(***************************************************************************)
EXTENDS Naturals, Sequences, FiniteSets, TLC

Prod ==
  [Aidl      |-> {<<"Package", "Imports", "Decls">>},
   Package   |-> {<<"PACKAGE", "QName", ";">>},
   QName     |-> {<<"IDENT", "QRest">>},
   QRest     |-> {<<>>, <<".", "IDENT", "QRest">>},
   Imports   |-> {<<>>, <<"Import", "Imports">>},
   Import    |-> {<<"IMPORT", "IDENT", ".", "IDENT", "QRest", ";">>},
   Decls     |-> {<<"FwdDecl", "Decls">>, <<"Item">>},
   FwdDecl   |-> {<<"Anns", "PARCELABLE", "QName", ";">>},
   Item      |-> {<<"Anns", "INTERFACE", "IDENT", "{", "IMembers", "}">>,
                  <<"Anns", "ONEWAY", "INTERFACE", "IDENT", "{", "IMembers", "}">>,
                  <<"Anns", "PARCELABLE", "IDENT", "{", "PMembers", "}">>,
                  <<"Anns", "ENUM", "IDENT", "{", "EElems", "}">>},
   Anns      |-> {<<>>, <<"Ann", "Anns">>},
   Ann       |-> {<<"ANNOTATION">>, <<"ANNOTATION", "(", "AnnParams", ")">>},
   AnnParams |-> {<<>>, <<"AnnParam">>, <<"AnnParam", ",", "AnnParams">>},
   AnnParam  |-> {<<"IDENT">>, <<"IDENT", "=", "Lit">>},
   Lit       |-> {<<"INTEGER">>, <<"FLOAT">>, <<"QUOTED_STRING">>, <<"BOOLEAN">>},
   IMembers  |-> {<<>>, <<"IMember", "IMembers">>},
   IMember   |-> {<<"Anns", "Method">>, <<"Anns", "Const">>},
   Method    |-> {<<"Type", "IDENT", "(", "Args", ")", "Code", ";">>, <<"ONEWAY", "Type", "IDENT", "(", "Args", ")", "Code", ";">>},
   Code      |-> {<<>>, <<"=", "INTEGER">>},
   Args      |-> {<<>>, <<"Arg">>, <<"Arg", ",", "Args">>},
   Arg       |-> {<<"Dir", "Anns", "Type", "Name">>},
   Dir       |-> {<<>>, <<"DIRECTION">>},
   Name      |-> {<<>>, <<"IDENT">>},
   Const     |-> {<<"CONST", "Type", "IDENT", "=", "Value", ";">>},
   PMembers  |-> {<<>>, <<"PMember", "PMembers">>},
   PMember   |-> {<<"Anns", "Field">>, <<"Anns", "Const">>},
   Field     |-> {<<"Type", "IDENT", ";">>, <<"Type", "IDENT", "=", "Value", ";">>},
   EElems    |-> {<<>>, <<"EElem">>, <<"EElem", ",", "EElems">>},
   EElem     |-> {<<"Anns", "IDENT">>, <<"Anns", "IDENT", "=", "Lit">>},
   Type      |-> {<<"Base", "Arr">>},
   Arr       |-> {<<>>, <<"[", "]", "Arr">>},
   Base      |-> {<<"VOID">>, <<"PRIMITIVE">>, <<"STRING">>, <<"CHAR_SEQUENCE">>, <<"QName">>,
                  <<"LIST">>, <<"LIST", "<", "Type", ">">>, <<"MAP">>, <<"MAP", "<", "Type", ",", "Type", ">">>},
   Value     |-> {<<"Lit">>, <<"{", "}">>, <<"{", "Values", "Commas", "}">>, <<"IDENT", ".", "IDENT">>},
   Values    |-> {<<"Value">>, <<"Value", "Values">>},
   Commas    |-> {<<>>, <<",">>, <<",", "Value", "Commas">>}]

NT == DOMAIN Prod

\* expand nonterminals on top of the stacks until every stack is empty or has a terminal on top
RECURSIVE Close(_)
Close(S) ==
  LET X == {c \in S : c # <<>> /\ Head(c) \in NT}
  IN IF X = {} THEN S
     ELSE Close((S \ X) \cup UNION {{rhs \o Tail(c) : rhs \in Prod[Head(c)]} : c \in X})

Start == Close({<<"Aidl">>})

\* one step of the machine: consume terminal t
Feed(S, t) == Close({Tail(c) : c \in {x \in S : x # <<>> /\ Head(x) = t}})

Accepting(S) == <<>> \in S

\* the terminals the machine is prepared to accept in configuration set S (the grammar's own expectation set)
Expected(S) == {Head(c) : c \in {x \in S : x # <<>>}}

RECURSIVE Run(_, _, _)
\* [ok, err]: err = index of the first token that makes the prefix non-viable, Len+1 when the input ends too early
Run(S, toks, i) ==
  IF i > Len(toks) THEN (IF Accepting(S) THEN [ok |-> TRUE, err |-> 0] ELSE [ok |-> FALSE, err |-> i])
  ELSE LET S2 == Feed(S, toks[i])
       IN IF S2 = {} THEN [ok |-> FALSE, err |-> i] ELSE Run(S2, toks, i + 1)

Recognise(toks) == Run(Start, toks, 1)
Sentence(toks) == Recognise(toks).ok
=============================================================================
