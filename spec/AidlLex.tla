------------------------------- MODULE AidlLex -------------------------------
(***************************************************************************)
(* The lexical level of the grammar (DESIGN.md Appendix D) as a state      *)
(* machine over a sequence of ATOMS (1-character strings for printable     *)
(* ASCII, names for everything else - AidlLayout.AtomTable).               *)
(*                                                                         *)
(* Munch(at, i): the longest match at position i over the token classes of *)
(* the grammar's `match` block, ties resolved by the block priority        *)
(* (literals / first block > reserved words > IDENT, INTEGER > FLOAT);      *)
(* trivia (white space, // and block comments) is matched the same way.    *)
(* Lex(at) iterates Munch; it stops with err = i when no class matches a   *)
(* non-empty text at i (unlexable character, unterminated string or        *)
(* comment, lone '+' or '@' ...).                                          *)
(***************************************************************************)
EXTENDS AidlLayout, Json

ASSUME TLCSet(43, JsonDeserialize("atoms.json"))

Letters == {"a","b","c","d","e","f","g","h","i","j","k","l","m","n","o","p","q","r","s","t","u","v","w","x","y","z",
            "A","B","C","D","E","F","G","H","I","J","K","L","M","N","O","P","Q","R","S","T","U","V","W","X","Y","Z","_"}
Digits == {"0","1","2","3","4","5","6","7","8","9"}
\* FLOAT is written with \d, which in the grammar's regex dialect is every Unicode decimal digit; INTEGER and the
\* identifier classes are written with [0-9]
FDigits == Digits \cup {"ARDIGIT", "FWDIGIT"}
WordCh == Letters \cup Digits
SignCh == {";", ",", "{", "}", "(", ")", "[", "]", "<", ">", "=", ".", "-"}
\* Unicode White_Space among the atoms
WsAtoms == {" ", "LF", "CR", "TAB", "VT", "FF", "SP", "NBSP", "IDSP", "ENSP", "LSEP", "PSEP", "NEL"}
EolAtoms == {"LF", "CR"}

SeqToSetL(s) == {s[x] : x \in DOMAIN s}

At(at, i) == IF i >= 1 /\ i <= Len(at) THEN at[i] ELSE "<eof>"

RECURSIVE RunEnd(_, _, _)
\* first index >= i whose atom is not in S (Len+1 if none)
RunEnd(at, i, S) == IF i <= Len(at) /\ at[i] \in S THEN RunEnd(at, i + 1, S) ELSE i

RECURSIVE FindClose(_, _)
\* index of the '/' of the first "*/" whose '*' is at index >= i (0 if none)
FindClose(at, i) == IF i + 1 > Len(at) THEN 0
                    ELSE IF at[i] = "*" /\ at[i + 1] = "/" THEN i + 1
                    ELSE FindClose(at, i + 1)

RECURSIVE FindQuote(_, _)
\* index of the closing quote of a string whose content starts at i (0 if a line end or the end of input comes first)
FindQuote(at, i) == IF i > Len(at) \/ at[i] \in EolAtoms THEN 0
                    ELSE IF at[i] = "\"" THEN i
                    ELSE FindQuote(at, i + 1)

\* the text of an atom: itself for printable ASCII, the character it names otherwise (table read once from
\* atoms.json into a TLC register, so that the specification needs no non-ASCII literal)
AtomStr(a) == IF Len(a) = 1 THEN a ELSE TLCGet(43)[a]

RECURSIVE Concat(_, _, _)
Concat(at, a, b) == IF a > b THEN "" ELSE AtomStr(at[a]) \o Concat(at, a + 1, b)

Literals == [package |-> "PACKAGE", import |-> "IMPORT", interface |-> "INTERFACE", parcelable |-> "PARCELABLE",
             enum |-> "ENUM", oneway |-> "ONEWAY", const |-> "CONST", void |-> "VOID", String |-> "STRING",
             CharSequence |-> "CHAR_SEQUENCE", List |-> "LIST", Map |-> "MAP",
             inout |-> "DIRECTION", in |-> "DIRECTION", out |-> "DIRECTION",
             byte |-> "PRIMITIVE", short |-> "PRIMITIVE", int |-> "PRIMITIVE", long |-> "PRIMITIVE", float |-> "PRIMITIVE",
             double |-> "PRIMITIVE", boolean |-> "PRIMITIVE", char |-> "PRIMITIVE", true |-> "BOOLEAN", false |-> "BOOLEAN"]
Reserved == {"break", "case", "catch", "char", "class", "continue", "default", "do", "double", "else", "enum", "false",
             "float", "for", "goto", "if", "int", "long", "new", "private", "protected", "public", "return", "short",
             "static", "switch", "this", "throw", "true", "try", "void", "volatile", "while"}

\* a whole word: first block literal, else reserved word, else identifier
ClassifyWord(w) == IF w \in DOMAIN Literals THEN Literals[w]
                   ELSE IF w \in Reserved THEN "RESERVED_KEYWORD" ELSE "IDENT"

\* FLOAT = [+-]?(\d*\.)?\d+[f]?  at i: index after the match, or i if it does not match
FloatEnd(at, i) ==
  LET s == IF At(at, i) \in {"+", "-"} THEN i + 1 ELSE i
      d1 == RunEnd(at, s, FDigits)                           \* \d*
      withDot == IF At(at, d1) = "." /\ At(at, d1 + 1) \in FDigits THEN RunEnd(at, d1 + 1, FDigits) ELSE 0
      plain == IF d1 > s THEN d1 ELSE 0
      body == IF withDot # 0 THEN withDot ELSE plain
  IN IF body = 0 THEN i ELSE IF At(at, body) = "f" THEN body + 1 ELSE body

\* [k, e]: kind and index after the longest match at i; k = "" when nothing (non-empty) matches
Munch(at, i) ==
  LET c == At(at, i) IN
  IF c \in WsAtoms THEN [k |-> "WS", e |-> RunEnd(at, i, WsAtoms)]
  ELSE IF c = "/" /\ At(at, i + 1) = "/" THEN
         [k |-> "LCOM", e |-> RunEnd(at, RunEnd(at, i + 2, (SeqToSetL(at) \ EolAtoms)), EolAtoms)]
  ELSE IF c = "/" /\ At(at, i + 1) = "*" THEN
         LET j == FindClose(at, i + 2)
         IN IF j = 0 THEN [k |-> "", e |-> i]
            ELSE [k |-> IF j - i >= 4 /\ At(at, i + 2) = "*" THEN "DOC" ELSE "BCOM", e |-> j + 1]
  ELSE IF c = "\"" THEN
         LET j == FindQuote(at, i + 1) IN IF j = 0 THEN [k |-> "", e |-> i] ELSE [k |-> "QUOTED_STRING", e |-> j + 1]
  ELSE IF c = "@" THEN
         IF At(at, i + 1) \in Letters THEN [k |-> "ANNOTATION", e |-> RunEnd(at, i + 1, WordCh)] ELSE [k |-> "", e |-> i]
  ELSE IF c \in Letters THEN
         LET e == RunEnd(at, i, WordCh) IN [k |-> ClassifyWord(Concat(at, i, e - 1)), e |-> e]
  ELSE IF c \in FDigits \cup {"+", "-", "."} THEN
         LET fe == FloatEnd(at, i)
             ie == IF c \in Digits THEN RunEnd(at, i, Digits) ELSE i
         IN IF fe > i /\ fe > ie THEN [k |-> "FLOAT", e |-> fe]            \* strictly longer than INTEGER
            ELSE IF ie > i THEN [k |-> "INTEGER", e |-> ie]                \* tie: INTEGER (earlier block)
            ELSE IF c \in SignCh THEN [k |-> c, e |-> i + 1]               \* "." or "-" alone
            ELSE [k |-> "", e |-> i]                                       \* "+" alone
  ELSE IF c \in SignCh THEN [k |-> c, e |-> i + 1]
  ELSE [k |-> "", e |-> i]

RECURSIVE LexFrom(_, _)
\* pieces from position i on; err = 0 or the position where the lexer is stuck
LexFrom(at, i) ==
  IF i > Len(at) THEN [pieces |-> <<>>, err |-> 0]
  ELSE LET m == Munch(at, i) IN
       IF m.k = "" THEN [pieces |-> <<>>, err |-> i]
       ELSE LET r == LexFrom(at, m.e)
                pc == IF m.k \in TriviaKinds THEN <<m.k, "", SubSeq(at, i, m.e - 1)>>
                      ELSE <<m.k, Concat(at, i, m.e - 1), SubSeq(at, i, m.e - 1)>>
            IN [pieces |-> <<pc>> \o r.pieces, err |-> r.err]

Lex(at) == LexFrom(at, 1)

\* byte offset / position of atom index i (1-based; Len+1 = end of text), as an empty range
RECURSIVE BytesBefore(_, _)
BytesBefore(at, i) == IF i <= 1 THEN 0 ELSE AtomInfo(at[i - 1]).b + BytesBefore(at, i - 1)
=============================================================================
