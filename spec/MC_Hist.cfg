SPECIFICATION HSpec
CONSTANTS
  Inst = {1}
  Ids <- HIds
  Contents <- HContents
  Attr <- HAttr
INVARIANTS Emit KeysExact PureFunction
PROPERTIES Locality OnlyNamedSlotChanges
CHECK_DEADLOCK FALSE
