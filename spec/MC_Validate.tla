----------------------------- MODULE MC_Validate -----------------------------
(***************************************************************************)
(* Bounded scenario spaces for the validation properties C05-C10.          *)
(* Every state is one scenario: a small project rendered as token          *)
(* sequences by AidlGen.  TLC enumerates the space exhaustively and emits  *)
(* each scenario; the harness replays them against the library and the     *)
(* trace specification judges every observation with AidlValidate.         *)
(* IOEnv.FAMILY selects the space, IOEnv.TIER its bound.                    *)
(***************************************************************************)
EXTENDS AidlGen, FiniteSets, Json, IOUtils

Family == IOEnv.FAMILY
Thorough == IOEnv.TIER = "thorough"

VARIABLE sc
vars == <<sc>>

-----------------------------------------------------------------------------
(* The 17 type categories, each with a type expression that makes it arise *)
(* through real resolution, and the project context it needs.              *)

Cats == {"prim", "void", "string", "charseq", "array", "list", "map",
         "IBinder", "FileDescriptor", "ParcelFileDescriptor", "ParcelableHolder",
         "interface", "parcelable", "enum", "fwd", "unknown", "unresolved"}

Leaves == (Cats \ {"array", "list", "map"}) \cup {"rawlist", "rawmap"}

CatType(c) ==
  CASE c = "prim" -> Prim("int")
    [] c = "void" -> Void
    [] c = "string" -> Str
    [] c = "charseq" -> CharSeq
    [] c = "array" -> Arr(Prim("int"))
    [] c = "list" -> Lst(Str)
    [] c = "map" -> Mp(Str, Str)
    [] c = "rawlist" -> RawList
    [] c = "rawmap" -> RawMap
    [] c = "voidarr" -> Arr(Void)
    [] c \in {"IBinder", "FileDescriptor", "ParcelFileDescriptor", "ParcelableHolder"} -> Named(<<c>>)
    [] c = "interface" -> Named(<<"Ti">>)
    [] c = "parcelable" -> Named(<<"Tp">>)
    [] c = "enum" -> Named(<<"Te">>)
    [] c = "fwd" -> Named(<<"Fw">>)
    [] c = "unknown" -> Named(<<"Tu">>)
    [] c = "unresolved" -> Named(<<"Zz">>)

CatImports(c) ==
  CASE c = "interface" -> <<<<"q", "Ti">>>>
    [] c = "parcelable" -> <<<<"q", "Tp">>>>
    [] c = "enum" -> <<<<"q", "Te">>>>
    [] c = "unknown" -> <<<<"q", "Tu">>>>
    [] OTHER -> <<>>

CatFwds(c) == IF c = "fwd" THEN <<<<"Fw">>>> ELSE <<>>

CatFiles(c) ==
  CASE c = "interface" -> <<ItemFile("ti", <<"q">>, "interface", "Ti")>>
    [] c = "parcelable" -> <<ItemFile("tp", <<"q">>, "parcelable", "Tp")>>
    [] c = "enum" -> <<ItemFile("te", <<"q">>, "enum", "Te")>>
    [] OTHER -> <<>>

RECURSIVE FlatCat(_, _)
FlatCat(f(_), cs) == IF cs = <<>> THEN <<>> ELSE f(cs[1]) \o FlatCat(f, Tail(cs))

\* remove duplicates from a sequence, keeping first occurrences
RECURSIVE Dedup(_)
Dedup(s) == IF s = <<>> THEN <<>>
            ELSE <<s[1]>> \o Dedup(SelectSeq(Tail(s), LAMBDA x : x # s[1]))

Scenario(fam, files, main) == [fam |-> fam, main |-> main, files |-> [k \in DOMAIN files |-> Doc(files[k])]]

-----------------------------------------------------------------------------
(* C07: category x direction x method oneway x interface oneway x position *)

DirSpace == [fam : {"dir"}, cat : Cats, dir : {"", "in", "out", "inout"}, mow : BOOLEAN, iow : BOOLEAN, pos : 1..3]

BuildDir(s) ==
  LET other(k) == Arg("", Prim("int"), "p" \o ToString(k))
      args == [k \in 1..3 |-> IF k = s.pos THEN Arg(s.dir, CatType(s.cat), "x") ELSE other(k)]
      main == File("a", <<"p">>, CatImports(s.cat), CatFwds(s.cat), "interface", "I", s.iow,
                   <<Method(s.mow, Void, "m", args, "")>>)
  IN Scenario("dir", <<main>> \o CatFiles(s.cat), "a")

-----------------------------------------------------------------------------
(* C08: constructor paths over {array, list, map key, map value} x leaves x position *)

Ctors == {"array", "list", "mapkey", "mapval"}
MaxDepth == IF Thorough THEN 3 ELSE 2
CtorPaths == UNION {[1..n -> Ctors] : n \in 1..MaxDepth}

RECURSIVE Wrap(_, _)
\* path[1] is the outermost constructor
Wrap(path, leaf) ==
  IF path = <<>> THEN leaf
  ELSE LET inner == Wrap(Tail(path), leaf) IN
       CASE path[1] = "array" -> Arr(inner)
         [] path[1] = "list" -> Lst(inner)
         [] path[1] = "mapkey" -> Mp(inner, Str)
         [] path[1] = "mapval" -> Mp(Str, inner)

Positions == {"field", "const", "return", "arg"}

\* arrays of 3 and 4 dimensions in every tier ("one Error per offending element": each inner array is one)
DeepArrays == {[k \in 1..n |-> "array"] : n \in 3..4}
ContSpace == [fam : {"cont"}, path : CtorPaths \cup DeepArrays \cup {<<"list">> \o d : d \in DeepArrays}, leaf : Leaves, at : Positions]
             \cup [fam : {"cont2"}, l1 : Leaves, l2 : Leaves, at : {"arg", "field"}]

LeafCat(l) == IF l \in {"rawlist", "rawmap", "voidarr"} THEN "prim" ELSE l   \* these need no project context

PlaceType(ty, at, imports, fwds) ==
  CASE at = "field" -> File("a", <<"p">>, imports, fwds, "parcelable", "P", FALSE, <<Field(ty, "f")>>)
    [] at = "const" -> File("a", <<"p">>, imports, fwds, "interface", "I", FALSE, <<Const(ty, "C")>>)
    [] at = "return" -> File("a", <<"p">>, imports, fwds, "interface", "I", FALSE, <<Method(FALSE, ty, "m", <<>>, "")>>)
    [] at = "arg" -> File("a", <<"p">>, imports, fwds, "interface", "I", FALSE,
                          <<Method(FALSE, Void, "m", <<Arg("in", ty, "x")>>, "")>>)

BuildCont(s) ==
  IF s.fam = "cont" THEN
     LET c == LeafCat(s.leaf)
     IN Scenario("cont", <<PlaceType(Wrap(s.path, CatType(s.leaf)), s.at, CatImports(c), CatFwds(c))>> \o CatFiles(c), "a")
  ELSE
     LET c1 == LeafCat(s.l1)
         c2 == LeafCat(s.l2)
     IN Scenario("cont2",
                 <<PlaceType(Mp(CatType(s.l1), CatType(s.l2)), s.at,
                             Dedup(CatImports(c1) \o CatImports(c2)), Dedup(CatFwds(c1) \o CatFwds(c2)))>>
                 \o Dedup(CatFiles(c1) \o CatFiles(c2)), "a")

-----------------------------------------------------------------------------
(* C09: all method sequences over 3 names x {no code, 3 codes}, constants interleaved *)

MNames == {"f", "g", "h"}
MCodes == {"", "1", "2", "3"}
MaxMethods == IF Thorough THEN 4 ELSE 3
MethSpace == [fam : {"meth"}, ms : UNION {[1..n -> MNames \X MCodes] : n \in 1..MaxMethods}, cm : {"none", "alt"}]

BuildMeth(s) ==
  LET RECURSIVE Mem(_)
      Mem(k) == IF k > Len(s.ms) THEN <<>>
                ELSE <<Method(FALSE, Void, s.ms[k][1], <<>>, s.ms[k][2])>>
                     \o (IF s.cm = "alt" /\ k % 2 = 1 THEN <<Const(Prim("int"), "K" \o ToString(k))>> ELSE <<>>)
                     \o Mem(k + 1)
  IN Scenario("meth", <<File("a", <<"p">>, <<>>, <<>>, "interface", "I", FALSE, Mem(1))>>, "a")

-----------------------------------------------------------------------------
(* C10: interface oneway x per-method oneway x return category *)

RetCats == Cats \cup {"voidarr"}
SmallRet == {"void", "prim", "parcelable", "list"}
OwSpace == [fam : {"ow"}, iow : BOOLEAN, ms : UNION {[1..n -> BOOLEAN \X RetCats] : n \in 1..2}, cm : BOOLEAN]
           \cup (IF Thorough THEN [fam : {"ow"}, iow : BOOLEAN, ms : [1..3 -> BOOLEAN \X SmallRet], cm : BOOLEAN] ELSE {})

BuildOw(s) ==
  LET cats == [k \in DOMAIN s.ms |-> s.ms[k][2]]
      RECURSIVE Mem(_)
      Mem(k) == IF k > Len(s.ms) THEN <<>>
                ELSE <<Method(s.ms[k][1], CatType(s.ms[k][2]), "m" \o ToString(k), <<>>, "")>>
                     \o (IF s.cm /\ k = 1 THEN <<Const(Prim("int"), "K")>> ELSE <<>>)
                     \o Mem(k + 1)
      imps == Dedup(FlatCat(CatImports, cats))
      fwds == Dedup(FlatCat(CatFwds, cats))
  IN Scenario("ow", <<File("a", <<"p">>, imps, fwds, "interface", "I", s.iow, Mem(1))>>
                    \o Dedup(FlatCat(CatFiles, cats)), "a")

-----------------------------------------------------------------------------
(* C05: reference name x imports x forward declarations x project items x placement *)

RefNames == {<<"Foo">>, <<"XFoo">>, <<"FooX">>, <<"pkg", "Foo">>, <<"other", "pkg", "Foo">>, <<"g", "Foo">>,
             <<"kg", "Foo">>, <<"IBinder">>, <<"ParcelFileDescriptor">>,
             <<"android", "os", "ParcelFileDescriptor">>, <<"android", "os", "IBinder">>,
             \* built-ins that may NOT be written qualified without an import: they fit no rule and stay unresolved
             <<"java", "os", "FileDescriptor">>, <<"android", "os", "ParcelableHolder">>}
ImpCands == {<<"pkg", "Foo">>, <<"other", "pkg", "Foo">>, <<"pkg", "XFoo">>,
             <<"android", "os", "IBinder">>, <<"android", "os", "ParcelFileDescriptor">>}
FwdCands == {<<"Foo">>, <<"pkg", "Foo">>, <<"IBinder">>}
MaxImps == IF Thorough THEN 3 ELSE 2
MaxFwds == IF Thorough THEN 2 ELSE 1
Placements == IF Thorough THEN {<<"return">>, <<"arg", "list">>, <<"field", "mapval", "array">>, <<"const", "array">>,
                                 <<"arg", "mapval", "list">>, <<"field">>}
              ELSE {<<"return">>, <<"arg", "list">>, <<"field", "mapval", "array">>}

ResSpace == [fam : {"res"}, ref : RefNames,
             imps : {S \in SUBSET ImpCands : Cardinality(S) <= MaxImps},
             fwds : {S \in SUBSET FwdCands : Cardinality(S) <= MaxFwds},
             def1 : {"none", "interface", "parcelable", "enum"},      \* what pkg.Foo is in the project
             def2 : {"none", "parcelable"},                           \* what other.pkg.Foo is
             place : Placements]

\* a fixed enumeration order for sets of name sequences (source order of the statements)
RECURSIVE SetToSeq(_)
SetToSeq(S) == IF S = {} THEN <<>>
               ELSE LET x == CHOOSE y \in S : TRUE IN <<x>> \o SetToSeq(S \ {x})

BuildRes(s) ==
  LET ty == Wrap(Tail(s.place), Named(s.ref))
      main == PlaceType(ty, s.place[1], SetToSeq(s.imps), SetToSeq(s.fwds))
      f1 == IF s.def1 = "none" THEN <<>> ELSE <<ItemFile("d1", <<"pkg">>, s.def1, "Foo")>>
      f2 == IF s.def2 = "none" THEN <<>> ELSE <<ItemFile("d2", <<"other", "pkg">>, s.def2, "Foo")>>
  IN Scenario("res", <<main>> \o f1 \o f2, "a")

-----------------------------------------------------------------------------
(* C05 / C17: project items whose simple name equals a built-in's (an explicit import wins over the built-in) *)

ShadowNames == {"IBinder", "ParcelFileDescriptor", "FileDescriptor", "ParcelableHolder"}
ShadowSpace == [fam : {"shadow"}, name : ShadowNames, kind : {"interface", "parcelable", "enum"},
                imp : SUBSET {"user", "android"}, qualified : BOOLEAN, place : {<<"return">>, <<"arg", "list">>, <<"field", "mapval", "array">>}]

BuildShadow(s) ==
  LET imps == (IF "user" \in s.imp THEN <<<<"pkg", s.name>>>> ELSE <<>>)
              \o (IF "android" \in s.imp /\ s.name # "FileDescriptor" THEN <<<<"android", "os", s.name>>>> ELSE <<>>)
      ref == IF s.qualified THEN <<"pkg", s.name>> ELSE <<s.name>>
      main == PlaceType(Wrap(Tail(s.place), Named(ref)), s.place[1], imps, <<>>)
  IN Scenario("shadow", <<main, ItemFile("d1", <<"pkg">>, s.kind, s.name)>>, "a")

-----------------------------------------------------------------------------
(* C06: import lists x forward-declaration lists x usage *)

ImpList == {<<"pkg", "Foo">>, <<"other", "pkg", "Foo">>, <<"pkg", "Bar">>, <<"android", "os", "IBinder">>, <<"zz", "Unk">>}
FwdList == {<<"Foo">>, <<"Baz">>, <<"pkg", "Baz">>}
MaxImpLen == IF Thorough THEN 4 ELSE 3
Usages == {"none", "top", "deep", "partial", "builtin", "fwd"}

ImpSpace == [fam : {"imp"}, imps : UNION {[1..n -> ImpList] : n \in 0..MaxImpLen},
             fwds : UNION {[1..n -> FwdList] : n \in 0..2}, use : Usages]

BuildImp(s) ==
  LET ty == CASE s.use = "none" -> Prim("int")
              [] s.use = "top" -> Named(<<"Foo">>)
              [] s.use = "deep" -> Lst(Mp(Str, Arr(Named(<<"Foo">>))))
              [] s.use = "partial" -> Named(<<"pkg", "Foo">>)
              [] s.use = "builtin" -> Named(<<"IBinder">>)
              [] s.use = "fwd" -> Named(<<"Baz">>)
      main == File("a", <<"p">>, s.imps, s.fwds, "interface", "I", FALSE,
                   <<Method(FALSE, Void, "m", <<Arg("in", ty, "x")>>, "")>>)
  IN Scenario("imp", <<main, ItemFile("d1", <<"pkg">>, "parcelable", "Foo"), ItemFile("d2", <<"pkg">>, "interface", "Bar")>>, "a")

-----------------------------------------------------------------------------
(* C11: several diagnostics on one line, ambiguous imports, duplicate keys (rendered on ONE line) *)

OrderSpace == [fam : {"order"}, kind : {"imps", "fwds", "ambig", "dupkey", "args", "mix"}, k : 2..4]

BuildOrder(s) ==
  LET U(j) == <<"u", "U" \o ToString(j)>>
      imps == CASE s.kind \in {"imps", "mix"} -> [j \in 1..s.k |-> U(j)]
                [] s.kind = "ambig" -> <<<<"pkg", "Foo">>, <<"other", "pkg", "Foo">>>> \o [j \in 1..(s.k - 2) |-> <<"zz" \o ToString(j), "Foo">>]
                [] s.kind = "dupkey" -> <<<<"pkg", "Foo">>>>
                [] OTHER -> <<>>
      fwds == IF s.kind \in {"fwds", "mix"} THEN [j \in 1..s.k |-> <<"F" \o ToString(j)>>] ELSE <<>>
      args == CASE s.kind \in {"ambig", "dupkey"} -> <<Arg("in", Named(<<"Foo">>), "x"), Arg("", Arr(Named(<<"Foo">>)), "y")>>
                [] s.kind \in {"args", "mix"} -> [j \in 1..s.k |-> Arg("out", Prim("int"), "a" \o ToString(j))]
                [] OTHER -> <<>>
      main == File("a", <<"p">>, imps, fwds, "interface", "I", FALSE, <<Method(FALSE, Void, "m", args, "")>>)
      rest == CASE s.kind = "ambig" -> <<ItemFile("d1", <<"pkg">>, "parcelable", "Foo"), ItemFile("d2", <<"other", "pkg">>, "interface", "Foo")>>
                [] s.kind = "dupkey" -> <<ItemFile("d1", <<"pkg">>, "parcelable", "Foo"), ItemFile("d2", <<"pkg">>, "enum", "Foo")>>
                                        \o (IF s.k > 2 THEN <<ItemFile("d3", <<"pkg">>, "interface", "Foo")>> ELSE <<>>)
                [] OTHER -> <<>>
  IN [fam |-> "order", main |-> "a", layout |-> "oneline", files |-> [k \in DOMAIN (<<main>> \o rest) |-> Doc((<<main>> \o rest)[k])]]

-----------------------------------------------------------------------------
(* C15 / C16 / C17: trees of every item kind, member mixes, types nested to depth 4, package depth 1-3, *)
(* plus a second file in another package that references the item in several positions                *)

Foo == Named(<<"Foo">>)
SymTypes == {Prim("int"), Foo, Arr(Str), Lst(Foo), Mp(Str, Arr(Foo)), Lst(Mp(Str, Arr(Prim("long")))),
             Mp(Str, Lst(Mp(Str, Arr(Foo)))), Arr(Arr(Prim("byte")))}
SymPairs == {<<Prim("int"), Foo>>, <<Foo, Arr(Str)>>, <<Lst(Foo), Mp(Str, Arr(Foo))>>,
             <<Mp(Str, Lst(Mp(Str, Arr(Foo)))), Prim("int")>>, <<Arr(Arr(Prim("byte"))), Lst(Mp(Str, Arr(Prim("long"))))>>}
IShapes == {[s |-> "m0"]} \cup [s : {"m1"}, t : SymTypes] \cup [s : {"m2"}, tu : SymPairs] \cup [s : {"c"}, t : {Prim("int"), Arr(Str)}]
PShapes == [s : {"f"}, t : SymTypes] \cup [s : {"c"}, t : {Prim("int"), Arr(Str)}]
MaxMembers == IF Thorough THEN 3 ELSE 2
SymPkgs == {<<"p">>, <<"p", "q">>, <<"a", "b", "c">>}

SymSpace == [fam : {"sym"}, kind : {"interface"}, pkg : SymPkgs, ms : UNION {[1..n -> IShapes] : n \in 0..MaxMembers}]
            \cup [fam : {"sym"}, kind : {"parcelable"}, pkg : SymPkgs, ms : UNION {[1..n -> PShapes] : n \in 0..MaxMembers}]
            \cup [fam : {"sym"}, kind : {"enum"}, pkg : SymPkgs, ms : {<<>>, <<"A">>, <<"A", "B">>, <<"A", "B", "C">>}]

BuildSym(s) ==
  LET nm(k) == ToString(k)
      IMem(k) == LET x == s.ms[k] IN
                 CASE x.s = "m0" -> Method(FALSE, Void, "f" \o nm(k), <<>>, "")
                   [] x.s = "m1" -> Method(FALSE, x.t, "g" \o nm(k), <<Arg("in", x.t, "x")>>, "")
                   [] x.s = "m2" -> Method(k = 2, Void, "h" \o nm(k), <<Arg("in", x.tu[1], "a"), Arg("out", x.tu[2], "")>>, nm(k))
                   [] x.s = "c" -> Const(x.t, "K" \o nm(k))
      PMem(k) == LET x == s.ms[k] IN
                 IF x.s = "f" THEN Field(x.t, "v" \o nm(k)) ELSE Const(x.t, "K" \o nm(k))
      members == CASE s.kind = "interface" -> [k \in DOMAIN s.ms |-> IMem(k)]
                   [] s.kind = "parcelable" -> [k \in DOMAIN s.ms |-> PMem(k)]
                   [] OTHER -> s.ms
      imps == IF s.kind = "enum" THEN <<>> ELSE <<<<"x", "Foo">>>>
      main == File("a", s.pkg, imps, <<>>, s.kind, "Main", FALSE, members)
      ref == File("r", <<"r">>, <<s.pkg \o <<"Main">>>>, <<>>, "interface", "R", FALSE,
                  <<Method(FALSE, Arr(Named(<<"Main">>)), "use", <<Arg("in", Named(<<"Main">>), "m"),
                                                                   Arg("in", Mp(Str, Lst(Named(<<"Main">>))), "")>>, "")>>)
  IN Scenario("sym", <<main, ref, ItemFile("foo", <<"x">>, "parcelable", "Foo")>>, "a")

-----------------------------------------------------------------------------
Space == CASE Family = "shadow" -> ShadowSpace
           [] Family = "sym" -> SymSpace
           [] Family = "order" -> OrderSpace
           [] Family = "dir" -> DirSpace
           [] Family = "cont" -> ContSpace
           [] Family = "meth" -> MethSpace
           [] Family = "ow" -> OwSpace
           [] Family = "res" -> ResSpace
           [] Family = "imp" -> ImpSpace

Build(s) == CASE s.fam = "shadow" -> BuildShadow(s)
              [] s.fam = "sym" -> BuildSym(s)
              [] s.fam = "order" -> BuildOrder(s)
              [] s.fam = "dir" -> BuildDir(s)
              [] s.fam \in {"cont", "cont2"} -> BuildCont(s)
              [] s.fam = "meth" -> BuildMeth(s)
              [] s.fam = "ow" -> BuildOw(s)
              [] s.fam = "res" -> BuildRes(s)
              [] s.fam = "imp" -> BuildImp(s)

Init == sc \in Space
Next == UNCHANGED sc
Spec == Init /\ [][Next]_vars

\* emitted once per state (scenario)
Emit == PrintT("SCEN " \o ToJson(Build(sc)))

\* design-level sanity of the generator: every scenario has a main file among its files
MainPresent == LET b == Build(sc) IN \E k \in DOMAIN b.files : b.files[k].id = b.main
=============================================================================
