SPECIFICATION Spec
INVARIANTS Emit LexReassembles
CHECK_DEADLOCK FALSE
