----------------------------- MODULE TraceAidl -----------------------------
(***************************************************************************)
(* Trace specification: validates NDJSON traces recorded from the real     *)
(* library against the specification.  One disjunct per logged event kind, *)
(* each re-using the AidlStore action of the same name with the logged     *)
(* arguments, and judging the logged result with the specification's       *)
(* operators.  A judgement that fails is reported (one FAIL line per       *)
(* event and property) and the trace is still consumed to its end, so the  *)
(* rest of the trace is always examined; an event whose call did not       *)
(* return normally poisons its scenario (nothing after it is judged until  *)
(* the next Reset).                                                        *)
(***************************************************************************)
EXTENDS AidlStore, AidlSymbols, AidlLex, Json, IOUtils

\* the trace is read once (at startup) into a TLC register; Rec is then a constant-time lookup
ASSUME TLCSet(42, ndJsonDeserialize(IOEnv.TRACE))
Rec == TLCGet(42)

VARIABLES l,        \* position in Rec
          memo12,   \* store value -> digests of the first validation of an equal store (C11, C12)
          memo13,   \* <<id, cid, facts>> -> digest of the first result with equal content and facts (C13)
          poison,   \* the current scenario saw a call that did not return normally
          stats,    \* counters reported at the end of the trace (vacuity control)
          docs      \* <<instance, id>> -> the pieces of the content held there, when the Add event carried them

tvars == <<store, l, memo12, memo13, poison, stats, docs>>

Fail(prop, e, why) == PrintT("FAIL " \o ToJson([prop |-> prop, l |-> l, sid |-> e.sid, n |-> e.n, why |-> why]))

\* J(prop, e, why, cond): TRUE always; reports when cond is FALSE
J(prop, e, why, cond) == IF cond THEN TRUE ELSE Fail(prop, e, why)

Fld(e, f) == f \in DOMAIN e
IdOf(e) == IF Fld(e, "path") THEN e.path ELSE e.id

-----------------------------------------------------------------------------
(* C13: facts of a file = kinds registered under each of its imports *)
FactsOf(o, keys) ==
  IF ~o.has_tree THEN <<>>
  ELSE [q \in ImpQNs(o.nodes) |-> IF q \in DOMAIN keys THEN keys[q] ELSE {}]

-----------------------------------------------------------------------------
\* kk: sequence of <<id, key, kind>>; some key is registered with two different kinds
AmbiguousKeys(kk) == \E a, b \in DOMAIN kk : kk[a][2] = kk[b][2] /\ kk[a][3] # kk[b][3]

\* imps: id -> sequence of <<path, name>>; some file imports one simple name from two places
AmbiguousImports(imps) ==
  \E id \in DOMAIN imps : \E a, b \in DOMAIN imps[id] : imps[id][a][2] = imps[id][b][2] /\ imps[id][a][1] # imps[id][b][1]

\* the specification leaves a choice open for this project (C05 / Appendix A): which of several
\* matching imports a name resolves to, which of several kinds registered under one key is seen.
\* (C12 compares modulo both; C13 only modulo the second: the pick among a file's own imports must itself be a
\* function of that file's text and of the facts about its imports, not of what other files import)
FreeChoice(e) == AmbiguousKeys(e.kk) \/ AmbiguousImports(e.imps)

(* Judgement of one validated observation *)
JudgeObs(e, o, keys) ==
  /\ J("C01", e, "result tagged with foreign id", o.id = o.rid)
  /\ J("C03", e, "parse-stage diagnostic dropped by validation", NoDrop(o))
  /\ J("C03", e, "no tree and no Error", NoTreeHasError(o))
  /\ J("C11", e, "diagnostics not in ascending start order", Sorted(o.diags))
  /\ J("C04", e, "validation diagnostic on no node range", OnNode(o))
  /\ J("C04", e, "related information on no node range",
       \A k \in DOMAIN o.diags : o.diags[k].stage = "valid" => \A j \in DOMAIN o.diags[k].rel : o.diags[k].rel[j].an # <<>>)
  /\ IF o.has_tree THEN
        /\ J("C05", e, "resolved kind / unknown-type slice", C05ok(o, keys))
        /\ J("C06", e, "import / forward-declaration slice", C06ok(o, keys))
        /\ J("C07", e, "direction slice", C07ok(o))
        /\ J("C08", e, "container slice", C08ok(o))
        /\ J("C09", e, "method name / code slice", C09ok(o))
        /\ J("C10", e, "oneway flags / slice", C10ok(o))
     ELSE TRUE

-----------------------------------------------------------------------------
(* Events *)

\* a new scenario: new parser instances.  The memos survive: content identities are global, and a result
\* is a function of the (id, content) pairs (C11 / C12) resp. of (id, content, import facts) (C13) whatever the
\* scenario - so the control cases "the facts changed, the result must follow" are compared with the results
\* other scenarios obtained under those facts
TReset(e) == /\ store' = Empty /\ UNCHANGED <<memo12, memo13>> /\ poison' = FALSE /\ docs' = Empty

Abnormal(e) == e.out # "ok"

\* a call that panicked / hung / aborted: C01, and the scenario is poisoned
TAbnormal(e) ==
  /\ Fail("C01", e, "call did not return normally: " \o e.out)
  /\ poison' = TRUE
  /\ UNCHANGED <<store, memo12, memo13, docs>>

TNew(e) == /\ New(e.i) /\ UNCHANGED <<memo12, memo13, poison>>
           /\ docs' = [k \in {x \in DOMAIN docs : x[1] # e.i} |-> docs[k]]

-----------------------------------------------------------------------------
(* Parse-stage judgement of an Add event that carries its document as pieces (C02, C03, C04, C18, C20) *)

Keywords == {"package", "import", "interface", "parcelable", "enum", "oneway", "const", "inout", "in", "out", "void",
             "byte", "short", "int", "long", "float", "double", "boolean", "char", "String", "CharSequence", "List", "Map",
             "true", "false"}
ReservedWords == {"break", "case", "catch", "char", "class", "continue", "default", "do", "double", "else", "enum", "false",
                  "float", "for", "goto", "if", "int", "long", "new", "private", "protected", "public", "return", "short",
                  "static", "switch", "this", "throw", "true", "try", "void", "volatile", "while"}

\* C03: no stored user-chosen identifier is a keyword or a reserved word
NamesAreIdents(o) == \A k \in DOMAIN o.idents : o.idents[k] \notin Keywords \cup ReservedWords

\* C20: the 34 terminals as the parser's expectation vectors spell them
Vocabulary == {"\"(\"", "\")\"", "\",\"", "\"-\"", "\".\"", "\";\"", "\"<\"", "\"=\"", "\">\"", "\"[\"", "\"]\"", "\"{\"", "\"}\"",
               "ANNOTATION", "BOOLEAN", "CHAR_SEQUENCE", "CONST", "DIRECTION", "ENUM", "FLOAT", "IDENT", "IMPORT", "INTEGER",
               "INTERFACE", "LIST", "MAP", "ONEWAY", "PACKAGE", "PARCELABLE", "PRIMITIVE", "QUOTED_STRING",
               "RESERVED_KEYWORD", "STRING", "VOID"}

\* the diagnostics that came out of the parser's error formatter (marked by the hook, independent of wording)
SyntaxIx(ds) == SortedSeq({k \in DOMAIN ds : ds[k].synt})

\* every token kind of the expectation vector is named in the message, and nothing else is
ExpectedNamed(d, v) ==
  LET named == {w \in SeqToSet(d.words) \cup SeqToSet(d.quoted) : w \in Vocabulary}
  IN named = SeqToSet(v)

C20ok(o, expected) ==
  LET S == SyntaxIx(o.diags)
  IN Len(S) = Len(expected) /\ \A k \in DOMAIN S : ExpectedNamed(o.diags[S[k]], expected[k])

JudgeDoc(e, d) ==
  LET o == e.pobs
      tk == Tokens(d)
      pr == ParseToks(tk)
      tab == Tab(d)
      ps == PosSet(d, tab)
      bad == IF pr.ok THEN BadCodes(tk, pr.ns) ELSE {}
      wellformed == pr.ok /\ bad = {}
      S == SyntaxIx(o.diags)
      TokSpans == TLCEval({Span(tk, tab, t, t) : t \in DOMAIN tk.pi} \cup {EofRange(tk, tab)})
      errRange == IF pr.err > Len(tk.pi) THEN EofRange(tk, tab) ELSE Span(tk, tab, pr.err, pr.err)
  IN /\ J("C03", e, "verdict differs from the grammar",
          wellformed <=> (o.has_tree /\ o.diags = <<>>))
     /\ J("C03", e, "malformed document without an Error",
          wellformed \/ \E k \in DOMAIN o.diags : o.diags[k].sev = "E")
     /\ J("C03", e, "keyword or reserved word stored as a name", NamesAreIdents(o))
     /\ J("C02", e, "tree does not mirror the source",
          pr.ok => (o.has_tree /\ TreeMatches(pr.ns, o.nodes, "parsed")))
     /\ J("C04", e, "range not well-formed (offset / char boundary / line-column)", AllRangesWF(o.nodes, o.diags, ps))
     /\ J("C04", e, "name / full range of a construct",
          (pr.ok /\ o.has_tree /\ Len(o.nodes) = Len(pr.ns)) =>
             (/\ \A i \in DOMAIN pr.ns : NodeRangesOK(pr.ns[i], o.nodes[i], tk, tab)
              /\ NestingOK(o.nodes)))
     /\ J("C04", e, "syntax diagnostic does not cover exactly one token / the end of input",
          \A k \in DOMAIN S : o.diags[S[k]].r \in TokSpans)
     /\ J("C04", e, "first syntax diagnostic is not on the first offending token",
          (~pr.ok /\ S # <<>>) =>
             \E k \in DOMAIN S : o.diags[S[k]].r = errRange
                                  /\ \A j \in DOMAIN S : o.diags[S[j]].r[1] >= errRange[1])
     /\ J("C04", e, "transact-code diagnostic is not on the number",
          pr.ok => \A k \in DOMAIN o.diags : ~o.diags[k].synt =>
                       \E i \in bad : o.diags[k].r = Span(tk, tab, pr.ns[i].x.ck, pr.ns[i].x.ck))
     /\ J("C18", e, "documentation of a construct",
          (pr.ok /\ o.has_tree /\ Len(o.nodes) = Len(pr.ns)) => DocsOK(pr.ns, o.nodes, d, tk))
     /\ J("C20", e, "syntax-error message vs. the parser's expectation set", C20ok(o, e.expected))

-----------------------------------------------------------------------------
(* C14: a malformed member costs only itself.  e.garbage = <<g1, g2>>: piece indices of the first token of *)
(* the garbage member and of its terminator.                                                               *)
MemberClasses == {"method", "const", "field", "elem"}

\* structure of a node with the member index erased
Shape(n) == [c |-> n.c, n |-> n.n, a |-> n.a, b |-> n.b, ann |-> n.ann,
             rest |-> IF Len(n.p) >= 2 /\ n.p[1] = "item" THEN SubSeq(n.p, 3, Len(n.p)) ELSE n.p]

JudgeRecovery(e) ==
  LET d == e.pieces
      o == e.pobs
      g1 == e.garbage[1]
      g2 == e.garbage[2]
      d0 == SubSeq(d, 1, g1 - 1) \o SubSeq(d, g2 + 1, Len(d))
      pr == ParseDoc(d)
      pr0 == ParseDoc(d0)
      tab == Tab(d)
      lo == tab[g1].s[1]
      hi == tab[g2].e[1]
      Inside(r) == lo <= r[1] /\ r[2] <= hi
      \* members the recovery salvaged from inside the garbage (allowed), with their subtrees
      Salv == {i \in DOMAIN o.nodes : Len(o.nodes[i].p) = 2 /\ o.nodes[i].c \in MemberClasses /\ Inside(o.nodes[i].full)}
      Dropped(i) == \E m \in Salv : IsPfx(o.nodes[m].p, o.nodes[i].p)
      Kept == SortedSeq({i \in DOMAIN o.nodes : ~Dropped(i)})
      obsShapes == [k \in DOMAIN Kept |-> Shape(o.nodes[Kept[k]])]
      expShapes == [k \in DOMAIN pr0.ns |-> Shape(pr0.ns[k])]
      S == SyntaxIx(o.diags)
  IN IF pr.ok \/ ~pr0.ok THEN TRUE      \* the filling happens to be a member (or the frame is broken): not a C14 case
     ELSE /\ J("C14", e, "no tree although only one member is malformed", o.has_tree)
          /\ J("C14", e, "a well-formed sibling is missing, duplicated or changed",
               o.has_tree => (/\ Len(obsShapes) = Len(expShapes)
                              /\ \A k \in DOMAIN expShapes :
                                    /\ obsShapes[k].c = expShapes[k].c /\ obsShapes[k].n = expShapes[k].n
                                    /\ obsShapes[k].b = expShapes[k].b /\ obsShapes[k].rest = expShapes[k].rest
                                    /\ (expShapes[k].a = "{*}" \/ obsShapes[k].a = expShapes[k].a)
                                    /\ AnnNorm(obsShapes[k].ann) = expShapes[k].ann))
          /\ J("C14", e, "no Error reported", \E k \in DOMAIN o.diags : o.diags[k].sev = "E")
          /\ J("C14", e, "a syntax Error lies outside the malformed member",
               \A k \in DOMAIN S : Inside(o.diags[S[k]].r))

JudgeParsed(e) == JudgeDoc(e, e.pieces)

\* a document given as raw characters (atoms): the specification lexes it first (AidlLex)
JudgeLexed(e) ==
  LET at == e.atoms
      lx == Lex(at)
      o == e.pobs
  IN IF lx.err = 0 THEN JudgeDoc(e, lx.pieces)
     ELSE LET whole == <<<<"WS", "", at>>>>
              ps == PosSet(whole, Tab(whole))
              off == BytesBefore(at, lx.err)
          IN /\ J("C03", e, "unlexable document reported free of syntax errors", ~(o.has_tree /\ o.diags = <<>>))
             /\ J("C03", e, "unlexable document without an Error", \E k \in DOMAIN o.diags : o.diags[k].sev = "E")
             /\ J("C03", e, "keyword or reserved word stored as a name", NamesAreIdents(o))
             /\ J("C04", e, "range not well-formed (offset / char boundary / line-column)", AllRangesWF(o.nodes, o.diags, ps))
             /\ J("C04", e, "no empty-range Error at the unlexable character",
                  \E k \in DOMAIN o.diags : o.diags[k].sev = "E" /\ o.diags[k].r[1] = off /\ o.diags[k].r[2] = off)
             /\ J("C20", e, "syntax-error message vs. the parser's expectation set", C20ok(o, e.expected))

TAdd(e) ==
  /\ (IF Fld(e, "atoms") /\ Fld(e, "pobs") THEN JudgeLexed(e) ELSE TRUE) = TRUE
  /\ (IF Fld(e, "garbage") /\ Fld(e, "pieces") /\ Fld(e, "pobs") THEN JudgeRecovery(e) ELSE TRUE) = TRUE
  \* (compared with TRUE so that TLC evaluates the judgement as an expression, where LET definitions are cached)
  /\ (IF Fld(e, "pieces") /\ Fld(e, "pobs") THEN JudgeParsed(e) ELSE TRUE) = TRUE
  /\ IF Has(e.i) THEN AddContent(e.i, IdOf(e), e.cid) ELSE store' = Put(store, e.i, Put(Empty, IdOf(e), e.cid))
  /\ docs' = IF Fld(e, "pieces") THEN Put(docs, <<e.i, IdOf(e)>>, e.pieces) ELSE Del(docs, <<e.i, IdOf(e)>>)
  /\ UNCHANGED <<memo12, memo13, poison>>

TAddFile(e) ==
  /\ CASE e.mode = "ok" ->
            /\ J("C12", e, "add_file of a readable file reported an error", e.ret = "ok")
            /\ IF Has(e.i) THEN AddFileOk(e.i, e.path, e.cid) ELSE store' = Put(store, e.i, Put(Empty, e.path, e.cid))
       [] e.mode = "missing" ->
            /\ J("C12", e, "add_file of a missing file reported success", e.ret = "err")
            /\ IF Has(e.i) THEN AddFileMissing(e.i, e.path) ELSE store' = Put(store, e.i, Empty)
       [] OTHER ->
            /\ J("C12", e, "add_file of a non-UTF-8 file reported success", e.ret = "err")
            /\ IF Has(e.i) THEN AddFileBadUtf8(e.i, e.path) ELSE store' = Put(store, e.i, Empty)
  /\ docs' = IF e.mode = "ok" THEN Del(docs, <<e.i, e.path>>) ELSE docs
  /\ UNCHANGED <<memo12, memo13, poison>>

TRemove(e) ==
  /\ IF Has(e.i) THEN Remove(e.i, IdOf(e)) ELSE store' = Put(store, e.i, Empty)
  /\ docs' = Del(docs, <<e.i, IdOf(e)>>)
  /\ UNCHANGED <<memo12, memo13, poison>>

VStore(e) == IF Has(e.i) THEN store[e.i] ELSE Empty

\* the validated result of a file whose document is known as pieces: validation adds kinds, oneway flags and
\* diagnostics - the tree still mirrors the source, every range (also of validation diagnostics and of their
\* related infos) is still exact / well-formed, the documentation is still the source's
JudgeValidatedDoc(e, o, d) ==
  LET tk == Tokens(d)
      pr == ParseToks(tk)
      tab == Tab(d)
      ps == PosSet(d, tab)
      same == pr.ok /\ o.has_tree /\ Len(o.nodes) = Len(pr.ns)
  IN /\ J("C02", e, "validated tree does not mirror the source",
          pr.ok => (o.has_tree /\ TreeMatches(pr.ns, o.nodes, "validated")))
     /\ J("C10", e, "oneway flag of a method vs. the source and the interface",
          same => \A i \in DOMAIN pr.ns : pr.ns[i].c = "method" =>
                     o.nodes[i].ow = (pr.ns[i].ow \/ pr.ns[ItemIx(pr.ns)].ow))
     \* what the validation rules talk about is what the SOURCE says: a tree that lost or changed the fact a rule
     \* depends on must not excuse the diagnostics that are consistent with the changed tree
     /\ J("C05", e, "name of a type reference vs. the name written in the source",
          same => \A i \in DOMAIN pr.ns : (pr.ns[i].c = "type" /\ pr.ns[i].a = "named") =>
                     (o.nodes[i].c = "type" /\ o.nodes[i].a = "named" /\ o.nodes[i].n = pr.ns[i].n))
     /\ J("C06", e, "import / forward declaration vs. the statement written in the source",
          same => \A i \in DOMAIN pr.ns : pr.ns[i].c \in {"imp", "fwd"} =>
                     (o.nodes[i].c = pr.ns[i].c /\ o.nodes[i].n = pr.ns[i].n /\ o.nodes[i].a = pr.ns[i].a))
     /\ J("C07", e, "direction of an argument vs. the direction written in the source",
          same => \A i \in DOMAIN pr.ns : pr.ns[i].c = "arg" => (o.nodes[i].c = "arg" /\ o.nodes[i].a = pr.ns[i].a))
     /\ J("C08", e, "kind of a type node (array / List / Map / primitive / named) vs. the source",
          same => \A i \in DOMAIN pr.ns : pr.ns[i].c = "type" =>
                     (o.nodes[i].c = "type" /\ o.nodes[i].a = pr.ns[i].a /\ o.nodes[i].p = pr.ns[i].p))
     /\ J("C09", e, "explicit transact code of a method vs. the code written in the source",
          same => \A i \in DOMAIN pr.ns : pr.ns[i].c = "method" => o.nodes[i].a = pr.ns[i].a)
     /\ J("C04", e, "range not well-formed after validation (offset / char boundary / line-column)",
          AllRangesWF(o.nodes, o.diags, ps))
     /\ J("C04", e, "name / full range of a construct after validation",
          same => \A i \in DOMAIN pr.ns : NodeRangesOK(pr.ns[i], o.nodes[i], tk, tab))
     /\ J("C18", e, "documentation of a construct after validation", same => DocsOK(pr.ns, o.nodes, d, tk))
     /\ J("C10", e, "redundant-oneway Warning is not exactly on the keyword",
          same => \A i \in DOMAIN pr.ns :
                    (pr.ns[i].c = "method" /\ pr.ns[i].ow /\ pr.ns[ItemIx(pr.ns)].ow) =>
                       Cardinality({k \in DOMAIN o.diags : o.diags[k].tag = "redundant_oneway"
                                                          /\ o.diags[k].r = Span(tk, tab, pr.ns[i].x.ok, pr.ns[i].x.ok)}) = 1)

JudgeValidate(e) ==
  LET s == VStore(e)
      full == Fld(e, "obs")
      keys == IF full THEN KeysOf(e.obs) ELSE <<>>
      M13 == IF full /\ ~AmbiguousKeys(e.kk) THEN {k \in DOMAIN e.obs : e.obs[k].id \in DOMAIN s} ELSE {}
      K13(k) == <<e.obs[k].id, s[e.obs[k].id], FactsOf(e.obs[k], keys)>>
  IN /\ J("C01", e, "result keys differ from the ids held",
          SeqToSet(e.keys) = DOMAIN s /\ Len(e.keys) = Cardinality(DOMAIN s))
     /\ J("C01", e, "a result is tagged with another id than the one it is filed under",
          \A k \in DOMAIN e.rids : e.rids[k][1] = e.rids[k][2])
     \* C11: the result, diagnostics in order, is a function of the (id, content) pairs
     /\ J("C11", e, "result (with diagnostic order) differs from the first validation of an equal (id, content) map",
          s \in DOMAIN memo12 => memo12[s].dig = e.dig)
     \* C12: the same modulo the order of diagnostics, and only where the project does not register
     \* one key with two kinds / import one simple name twice (there any pick is allowed; its stability is C11's)
     /\ J("C12", e, "result differs from the first validation of an equal (id, content) map",
          (s \in DOMAIN memo12 /\ ~FreeChoice(e)) => memo12[s].sdig = e.sdig)
     /\ IF full THEN
          /\ \A k \in DOMAIN e.obs : JudgeObs(e, e.obs[k], keys)
          /\ \A k \in DOMAIN e.obs : <<e.i, e.obs[k].id>> \in DOMAIN docs =>
                                          JudgeValidatedDoc(e, e.obs[k], docs[<<e.i, e.obs[k].id>>])
          /\ \A k \in M13 : J("C13", e, "result differs from an earlier one with equal content and import facts",
                              K13(k) \in DOMAIN memo13 => memo13[K13(k)] = e.sdig[e.obs[k].id])
        ELSE TRUE

NextMemo13(e) ==
  LET s == VStore(e)
      full == Fld(e, "obs")
      keys == IF full THEN KeysOf(e.obs) ELSE <<>>
      M13 == IF full /\ ~AmbiguousKeys(e.kk) THEN {k \in DOMAIN e.obs : e.obs[k].id \in DOMAIN s} ELSE {}
      K13(k) == <<e.obs[k].id, s[e.obs[k].id], FactsOf(e.obs[k], keys)>>
  IN IF ~full THEN memo13
     ELSE [x \in DOMAIN memo13 \cup {K13(k) : k \in M13} |->
              IF x \in DOMAIN memo13 THEN memo13[x]
              ELSE e.sdig[e.obs[CHOOSE k \in M13 : K13(k) = x].id]]

TValidate(e) ==
  /\ IF Has(e.i) THEN ReadOnly(e.i) ELSE store' = Put(store, e.i, Empty)
  /\ JudgeValidate(e) = TRUE
  /\ memo12' = IF VStore(e) \in DOMAIN memo12 THEN memo12 ELSE Put(memo12, VStore(e), [dig |-> e.dig, sdig |-> e.sdig])
  /\ memo13' = NextMemo13(e)
  /\ UNCHANGED <<poison, docs>>

\* kk (sequence of <<id, key, kind>>) as key -> set of kinds
KeysOfKK(kk) == [q \in {kk[j][2] : j \in DOMAIN kk} |-> {kk[j][3] : j \in {x \in DOMAIN kk : kk[x][2] = q}}]

\* read-only queries: they never change the store, and their answers are judged with AidlSymbols
JudgeQuery(e) ==
  IF e.out # "ok" \/ ~Fld(e, "nodes") THEN TRUE
  ELSE LET ns == e.nodes IN
  CASE e.ev = "walk" ->
         /\ J("C15", e, "walk_symbols order / coverage",
              [k \in DOMAIN e.syms |-> e.syms[k].p] = Walk(ns, e.filter) /\ WalkCoversTree(ns))
         /\ J("C17", e, "name / qualified name of a symbol", NamesOK(ns, e.syms, KeysOfKK(e.kk)))
         /\ J("C17", e, "name / qualified name of a symbol vs. the names written in the source",
              (<<e.i, e.id>> \in DOMAIN docs /\ ParseDoc(docs[<<e.i, e.id>>]).ok)
                 => NamesOKSrc(ParseDoc(docs[<<e.i, e.id>>]).ns, e.syms))
         /\ J("X-strings", e, "signature / details string (extension)", StringsOK(ns, e.syms))
    [] e.ev = "filter" -> J("C15", e, "filter_symbols result", e.paths = FilterPaths(ns, e.filter, e.pred))
    [] e.ev = "find" -> J("C15", e, "find_symbol result", e.found = FindPath(ns, e.filter, e.pred))
    [] e.ev = "filters" -> J("C15", e, "filter_symbols result",
                               LET w == WalkIx(ns, e.filter)
                               IN \A k \in DOMAIN e.preds : e.paths[k] = FilterWith(ns, w, e.preds[k]))
    [] e.ev = "finds" -> J("C15", e, "find_symbol result",
                             LET w == WalkIx(ns, e.filter)
                             IN \A k \in DOMAIN e.preds : e.found[k] = FindWith(ns, w, e.preds[k]))
    [] e.ev = "lookups" ->
         J("C16", e, "find_symbol_at_line_col result",
           LET w == WalkIx(ns, e.filter)
           IN \A k \in DOMAIN e.positions : e.found[k] = LookupWith(ns, w, e.positions[k][1], e.positions[k][2]))
    [] e.ev = "walktypes" -> J("C15", e, "walk_types order / coverage", e.paths = WalkTypesPaths(ns))
    [] e.ev = "walkmethods" -> J("C15", e, "walk_methods order / coverage", e.paths = WalkMethodsPaths(ns))
    [] e.ev = "walkargs" -> J("C15", e, "walk_args order / coverage", e.pairs = WalkArgsPairs(ns))
    [] e.ev = "roundtrip" ->
         \* RoundTrip is an identity step on the abstract tree: serialising and reading back changes nothing
         J("C19", e, "tree changed by the serde round trip",
           e.rt = "ok" /\ e.after = e.before /\ e.before = ns /\ e.eq)
    [] e.ev = "key" -> J("C17", e, "Aidl::get_key", e.key = KeyOfNodes(ns))
    [] OTHER -> TRUE

TQuery(e) == /\ (IF Has(e.i) THEN ReadOnly(e.i) ELSE store' = Put(store, e.i, Empty))
             /\ JudgeQuery(e) = TRUE
             /\ UNCHANGED <<memo12, memo13, poison, docs>>

\* extension (DESIGN section 10): the built-in type tables and the three name lookups of the public API
JudgeAndroid(e) ==
  LET Row(nm) == CHOOSE k \in DOMAIN e.table : e.table[k].name = nm
      Names == {e.table[k].name : k \in DOMAIN e.table}
      ByName(s) == IF s \in Names THEN <<s>> ELSE <<>>
      ByQName(s) == LET M == {k \in DOMAIN e.table : e.table[k].qname = s} IN IF M = {} THEN <<>> ELSE <<e.table[CHOOSE k \in M : TRUE].name>>
      ByType(s) == IF s \in Names THEN <<s>>
                   ELSE LET M == {k \in DOMAIN e.table : e.table[k].qname = s /\ e.table[k].canq}
                        IN IF M = {} THEN <<>> ELSE <<e.table[CHOOSE k \in M : TRUE].name>>
  IN /\ J("X-android", e, "set of built-in names", Names = BuiltinNames /\ Len(e.table) = 4)
     /\ J("X-android", e, "qualified names used by C05", \A nm \in {"IBinder", "ParcelFileDescriptor", "ParcelableHolder"} :
                                                          e.table[Row(nm)].qname = BuiltinQN(nm))
     /\ J("X-android", e, "only ParcelFileDescriptor may be written qualified without an import",
          \A k \in DOMAIN e.table : e.table[k].canq <=> e.table[k].qname \in QualifiableQN)
     /\ J("X-android", e, "from_name / from_qualified_name / from_type_name",
          \A k \in DOMAIN e.probes : /\ e.probes[k].name = ByName(e.probes[k].s)
                                      /\ e.probes[k].qualified = ByQName(e.probes[k].s)
                                      /\ e.probes[k].type_name = ByType(e.probes[k].s))

TAndroid(e) == JudgeAndroid(e) = TRUE /\ UNCHANGED <<store, memo12, memo13, poison, docs>>

Queries == {"walk", "filter", "find", "finds", "filters", "lookups", "walktypes", "walkmethods", "walkargs", "key", "roundtrip"}

Hit12(e) == e.ev = "validate" /\ ~poison /\ e.out = "ok" /\ Has(e.i) /\ store[e.i] \in DOMAIN memo12
NObs(e) == IF e.ev = "validate" /\ ~poison /\ e.out = "ok" /\ Fld(e, "obs") THEN Len(e.obs) ELSE 0
Hit13(e) == IF NObs(e) = 0 \/ ~Has(e.i) THEN 0
            ELSE LET keys == KeysOf(e.obs) IN
                 Cardinality({k \in DOMAIN e.obs : e.obs[k].id \in DOMAIN store[e.i]
                                 /\ <<e.obs[k].id, store[e.i][e.obs[k].id], FactsOf(e.obs[k], keys)>> \in DOMAIN memo13})

TNext ==
  /\ l <= Len(Rec)
  /\ l' = l + 1
  /\ stats' = [h12 |-> stats.h12 + (IF Hit12(Rec[l]) THEN 1 ELSE 0),
               h13 |-> stats.h13 + Hit13(Rec[l]),
               obs |-> stats.obs + NObs(Rec[l])]
  /\ (l = Len(Rec) => PrintT("STATS " \o ToJson(stats')))
  /\ LET e == Rec[l] IN
       IF e.ev = "Reset" THEN TReset(e)
       ELSE IF poison THEN UNCHANGED <<store, memo12, memo13, poison, docs>>
       ELSE IF Abnormal(e) /\ e.out \in {"panic", "timeout", "abort"} THEN TAbnormal(e)
       ELSE CASE e.ev = "new" -> TNew(e)
              [] e.ev = "add" -> TAdd(e)
              [] e.ev = "addfile" -> TAddFile(e)
              [] e.ev = "remove" -> TRemove(e)
              [] e.ev = "validate" -> TValidate(e)
              [] e.ev \in Queries -> TQuery(e)
              [] e.ev = "android" -> TAndroid(e)

TInit == store = Empty /\ l = 1 /\ memo12 = Empty /\ memo13 = Empty /\ poison = FALSE /\ stats = [h12 |-> 0, h13 |-> 0, obs |-> 0]
         /\ docs = Empty

TraceSpec == TInit /\ [][TNext]_tvars

\* every line of the trace was consumed (one state per line + the initial state)
TraceAccepted ==
  \/ TLCGet("stats").diameter - 1 = Len(Rec)
  \/ PrintT("UNMATCHED " \o ToString(TLCGet("stats").diameter) \o " of " \o ToString(Len(Rec)))
     /\ FALSE
=============================================================================
