----------------------------- MODULE AidlParse -----------------------------
(***************************************************************************)
(* The supported AIDL grammar (DESIGN.md Appendix D) as a deterministic    *)
(* tree builder over token sequences.                                      *)
(*                                                                         *)
(* A document d is a sequence of PIECES <<kind, text>> (or <<kind, text,   *)
(* atoms>> / <<"DOC", text, atoms, body>>); trivia kinds are WS, LCOM,     *)
(* BCOM, DOC and never reach the tree builder: the tree is a function of   *)
(* the non-trivia pieces only (layout invariance, C02, is a theorem of     *)
(* this definition).                                                       *)
(*                                                                         *)
(* ParseDoc(d) = [ok, err, ns]: ok iff the token sequence is a sentence of *)
(* the grammar; err = index (in the token sequence) of the first token     *)
(* that makes the prefix non-viable (Len+1 = end of input); ns = flat      *)
(* pre-order node list with, for every node, the token indices that        *)
(* delimit its name and its extent.                                        *)
(***************************************************************************)
EXTENDS Naturals, Sequences, FiniteSets, TLC

TriviaKinds == {"WS", "LCOM", "BCOM", "DOC"}
LitKinds == {"INTEGER", "FLOAT", "QUOTED_STRING", "BOOLEAN"}
TypeFirst == {"VOID", "PRIMITIVE", "STRING", "CHAR_SEQUENCE", "LIST", "MAP", "IDENT"}

TokIx(d) == SelectSeq([i \in 1..Len(d) |-> i], LAMBDA i : d[i][1] \notin TriviaKinds)

\* token view of a document: kinds, texts, and the piece index of every token
Tokens(d) == LET ix == TokIx(d)
             IN [k |-> [j \in DOMAIN ix |-> d[ix[j]][1]], x |-> [j \in DOMAIN ix |-> d[ix[j]][2]], pi |-> ix]

K(tk, i) == IF i >= 1 /\ i <= Len(tk.k) THEN tk.k[i] ELSE "EOF"

NoExt == [s1 |-> 0, s2 |-> 0, f0 |-> 0, f1 |-> 0, la |-> 0, f2 |-> 0, ft |-> 0, dk |-> 0, ok |-> 0, ck |-> 0]

Node(p, c, n, a, b, ann, ow, ext) ==
  [p |-> p, c |-> c, n |-> n, a |-> a, b |-> b, ann |-> ann, ow |-> ow, x |-> ext]

PFail(i) == [ok |-> FALSE, i |-> i, ns |-> <<>>]
POk(i, ns) == [ok |-> TRUE, i |-> i, ns |-> ns]

Seg(s, k) == s \o ToString(k)

-----------------------------------------------------------------------------
(* Qualified names: IDENT ("." IDENT)*  *)
RECURSIVE PQName(_, _)
PQName(tk, i) ==
  IF K(tk, i) # "IDENT" THEN [ok |-> FALSE, i |-> i, segs |-> <<>>]
  ELSE IF K(tk, i + 1) = "." THEN
         LET r == PQName(tk, i + 2)
         IN IF r.ok THEN [ok |-> TRUE, i |-> r.i, segs |-> <<tk.x[i]>> \o r.segs] ELSE r
  ELSE [ok |-> TRUE, i |-> i + 1, segs |-> <<tk.x[i]>>]

RECURSIVE Dots(_)
Dots(segs) == IF segs = <<>> THEN ""
              ELSE IF Len(segs) = 1 THEN segs[1] ELSE segs[1] \o "." \o Dots(Tail(segs))

Front(s) == SubSeq(s, 1, Len(s) - 1)
Last(s) == s[Len(s)]

-----------------------------------------------------------------------------
(* Annotations: ANNOTATION ( "(" CommaSep<IDENT ("=" Lit)?> ")" )?  *)
RECURSIVE PAnnParams(_, _, _)
\* i is just after "(" or after a ","; returns the index after ")"
PAnnParams(tk, i, kv) ==
  IF K(tk, i) = ")" THEN [ok |-> TRUE, i |-> i + 1, kv |-> kv]
  ELSE IF K(tk, i) # "IDENT" THEN [ok |-> FALSE, i |-> i, kv |-> kv]
  ELSE LET hasv == K(tk, i + 1) = "="
           j == IF hasv THEN i + 3 ELSE i + 1
           ent == <<tk.x[i], IF hasv THEN <<tk.x[i + 2]>> ELSE <<>> >>
       IN IF hasv /\ K(tk, i + 2) \notin LitKinds THEN [ok |-> FALSE, i |-> i + 2, kv |-> kv]
          ELSE IF K(tk, j) = "," THEN PAnnParams(tk, j + 1, kv \cup {ent})
          ELSE IF K(tk, j) = ")" THEN [ok |-> TRUE, i |-> j + 1, kv |-> kv \cup {ent}]
          ELSE [ok |-> FALSE, i |-> j, kv |-> kv]

RECURSIVE PAnns(_, _, _, _)
\* returns [ok, i, anns, la]: la = index of the last token of the last annotation (0 if none)
PAnns(tk, i, anns, la) ==
  IF K(tk, i) # "ANNOTATION" THEN [ok |-> TRUE, i |-> i, anns |-> anns, la |-> la]
  ELSE IF K(tk, i + 1) = "(" THEN
         LET r == PAnnParams(tk, i + 2, {})
         IN IF r.ok THEN PAnns(tk, r.i, Append(anns, [n |-> tk.x[i], kv |-> r.kv]), r.i - 1)
            ELSE [ok |-> FALSE, i |-> r.i, anns |-> anns, la |-> la]
  ELSE PAnns(tk, i + 1, Append(anns, [n |-> tk.x[i], kv |-> {}]), i)

-----------------------------------------------------------------------------
(* Values.  The stored string of a brace list is a summary: "{*}" = any.   *)
RECURSIVE PValue(_, _)
PValue(tk, i) ==
  LET k == K(tk, i) IN
  IF k \in LitKinds THEN [ok |-> TRUE, i |-> i + 1, v |-> tk.x[i]]
  ELSE IF k = "IDENT" THEN
         IF K(tk, i + 1) # "." THEN [ok |-> FALSE, i |-> i + 1, v |-> ""]
         ELSE IF K(tk, i + 2) # "IDENT" THEN [ok |-> FALSE, i |-> i + 2, v |-> ""]
         ELSE [ok |-> TRUE, i |-> i + 3, v |-> tk.x[i] \o "." \o tk.x[i + 2]]
  ELSE IF k = "{" THEN
         IF K(tk, i + 1) = "}" THEN [ok |-> TRUE, i |-> i + 2, v |-> "{}"]
         ELSE LET RECURSIVE Juxta(_)      \* Value+ : at least one value, further ones juxtaposed
                  Juxta(j) == LET r == PValue(tk, j) IN
                              IF ~r.ok THEN r
                              ELSE IF K(tk, r.i) \in LitKinds \cup {"IDENT", "{"} THEN Juxta(r.i)
                              ELSE r
                  RECURSIVE Commas(_)     \* ("," Value)* ","? "}"
                  Commas(j) == IF K(tk, j) = "}" THEN [ok |-> TRUE, i |-> j + 1, v |-> "{*}"]
                               ELSE IF K(tk, j) # "," THEN [ok |-> FALSE, i |-> j, v |-> ""]
                               ELSE IF K(tk, j + 1) = "}" THEN [ok |-> TRUE, i |-> j + 2, v |-> "{*}"]
                               ELSE LET r == PValue(tk, j + 1) IN IF r.ok THEN Commas(r.i) ELSE r
                  first == Juxta(i + 1)
              IN IF first.ok THEN Commas(first.i) ELSE first
  ELSE [ok |-> FALSE, i |-> i, v |-> ""]

-----------------------------------------------------------------------------
(* Types.  Arrays are postfix; `T[]` is an "Array" node whose only parameter is T. *)
TypeNode(p, name, kind, s1, s2, f1, f2) ==
  Node(p, "type", name, kind, "", <<>>, FALSE,
       [NoExt EXCEPT !.s1 = s1, !.s2 = s2, !.f0 = f1, !.f1 = f1, !.f2 = f2])

Repath(ns, n, newp) == [x \in DOMAIN ns |-> [ns[x] EXCEPT !.p = newp \o SubSeq(@, n + 1, Len(@))]]

SynKind(k) == CASE k = "VOID" -> "void" [] k = "PRIMITIVE" -> "prim" [] k = "STRING" -> "string" [] OTHER -> "charseq"

RECURSIVE PType(_, _, _)
PBase(tk, i, p) ==
  LET k == K(tk, i) IN
  IF k \in {"VOID", "PRIMITIVE", "STRING", "CHAR_SEQUENCE"} THEN
     POk(i + 1, <<TypeNode(p, tk.x[i], SynKind(k), i, i, i, i)>>)
  ELSE IF k = "IDENT" THEN
     LET q == PQName(tk, i)
     IN IF q.ok THEN POk(q.i, <<TypeNode(p, Dots(q.segs), "named", i, q.i - 1, i, q.i - 1)>>) ELSE PFail(q.i)
  ELSE IF k = "LIST" THEN
     IF K(tk, i + 1) # "<" THEN POk(i + 1, <<TypeNode(p, "List", "list", i, i, i, i)>>)
     ELSE LET e == PType(tk, i + 2, Append(p, "g1"))
          IN IF ~e.ok THEN e
             ELSE IF K(tk, e.i) # ">" THEN PFail(e.i)
             ELSE POk(e.i + 1, <<TypeNode(p, "List", "list", i, i, i, e.i)>> \o e.ns)
  ELSE IF k = "MAP" THEN
     IF K(tk, i + 1) # "<" THEN POk(i + 1, <<TypeNode(p, "Map", "map", i, i, i, i)>>)
     ELSE LET a == PType(tk, i + 2, Append(p, "g1"))
          IN IF ~a.ok THEN a
             ELSE IF K(tk, a.i) # "," THEN PFail(a.i)
             ELSE LET b == PType(tk, a.i + 1, Append(p, "g2"))
                  IN IF ~b.ok THEN b
                     ELSE IF K(tk, b.i) # ">" THEN PFail(b.i)
                     ELSE POk(b.i + 1, <<TypeNode(p, "Map", "map", i, i, i, b.i)>> \o a.ns \o b.ns)
  ELSE PFail(i)

RECURSIVE PArr(_, _, _, _, _)
\* ns: nodes of the type parsed so far (rooted at p, starting at token i0); j: next token
PArr(tk, j, p, ns, i0) ==
  IF K(tk, j) # "[" THEN POk(j, ns)
  ELSE IF K(tk, j + 1) # "]" THEN PFail(j + 1)
  ELSE PArr(tk, j + 2, p,
            <<TypeNode(p, "Array", "array", i0, j - 1, i0, j + 1)>> \o Repath(ns, Len(p), Append(p, "g1")), i0)

PType(tk, i, p) == LET b == PBase(tk, i, p) IN IF ~b.ok THEN b ELSE PArr(tk, b.i, p, b.ns, i)

-----------------------------------------------------------------------------
(* Transact codes: the stored value is the number (leading zeros vanish); a code that does not fit *)
(* 32 bits is not stored                                                                           *)
RECURSIVE StripZeros(_)
StripZeros(s) == IF Len(s) > 1 /\ SubSeq(s, 1, 1) = "0" THEN StripZeros(SubSeq(s, 2, Len(s))) ELSE s

DigitVal(c) == CASE c = "0" -> 0 [] c = "1" -> 1 [] c = "2" -> 2 [] c = "3" -> 3 [] c = "4" -> 4
                 [] c = "5" -> 5 [] c = "6" -> 6 [] c = "7" -> 7 [] c = "8" -> 8 [] OTHER -> 9

RECURSIVE LeqDigits(_, _)
\* equal-length digit strings: a <= b
LeqDigits(a, b) == IF a = "" THEN TRUE
                   ELSE LET x == DigitVal(SubSeq(a, 1, 1))
                            y == DigitVal(SubSeq(b, 1, 1))
                        IN IF x < y THEN TRUE ELSE IF x > y THEN FALSE
                           ELSE LeqDigits(SubSeq(a, 2, Len(a)), SubSeq(b, 2, Len(b)))

FitsU32(s) == LET z == StripZeros(s)
              IN Len(z) < 10 \/ (Len(z) = 10 /\ LeqDigits(z, "4294967295"))

-----------------------------------------------------------------------------
(* Members *)

\* Arg: DIRECTION? Annotation* Type IDENT?
PArg(tk, i, p) ==
  LET hasd == K(tk, i) = "DIRECTION"
      an == PAnns(tk, IF hasd THEN i + 1 ELSE i, <<>>, 0)
  IN IF ~an.ok THEN PFail(an.i)
     ELSE LET t == PType(tk, an.i, Append(p, "t"))
          IN IF ~t.ok THEN t
             ELSE LET named == K(tk, t.i) = "IDENT"
                      j == IF named THEN t.i + 1 ELSE t.i
                  IN POk(j, <<Node(p, "arg", IF named THEN tk.x[t.i] ELSE "", IF hasd THEN tk.x[i] ELSE "",
                                   IF named THEN "n" ELSE "", an.anns, FALSE,
                                   [NoExt EXCEPT !.s1 = IF named THEN t.i ELSE 0, !.s2 = IF named THEN t.i ELSE 0,
                                                 !.f0 = i, !.f1 = an.i, !.la = an.la, !.f2 = j - 1,
                                                 !.dk = IF hasd THEN i ELSE 0])>> \o t.ns)

RECURSIVE PArgs(_, _, _, _)
\* i is just after "(" or after a ","; returns the index after ")"
PArgs(tk, i, p, k) ==
  IF K(tk, i) = ")" THEN POk(i + 1, <<>>)
  ELSE LET a == PArg(tk, i, Append(p, Seg("a", k)))
       IN IF ~a.ok THEN a
          ELSE IF K(tk, a.i) = "," THEN
                 LET r == PArgs(tk, a.i + 1, p, k + 1) IN IF r.ok THEN POk(r.i, a.ns \o r.ns) ELSE r
          ELSE IF K(tk, a.i) = ")" THEN POk(a.i + 1, a.ns)
          ELSE PFail(a.i)

\* Method: Annotation* ONEWAY? Type IDENT "(" CommaSep<Arg> ")" ("=" INTEGER)? ";"     (i: after the annotations)
PMethod(tk, i0, i, p, an) ==
  LET ow == K(tk, i) = "ONEWAY"
      t == PType(tk, IF ow THEN i + 1 ELSE i, Append(p, "t"))
  IN IF ~t.ok THEN t
     ELSE IF K(tk, t.i) # "IDENT" THEN PFail(t.i)
     ELSE IF K(tk, t.i + 1) # "(" THEN PFail(t.i + 1)
     ELSE LET as == PArgs(tk, t.i + 2, p, 1)
          IN IF ~as.ok THEN as
             ELSE LET hasc == K(tk, as.i) = "="
                      j == IF hasc THEN as.i + 2 ELSE as.i
                  IN IF hasc /\ K(tk, as.i + 1) # "INTEGER" THEN PFail(as.i + 1)
                     ELSE IF K(tk, j) # ";" THEN PFail(j)
                     ELSE POk(j + 1,
                             <<Node(p, "method", tk.x[t.i],
                                    IF hasc /\ FitsU32(tk.x[as.i + 1]) THEN StripZeros(tk.x[as.i + 1]) ELSE "",
                                    "", an.anns, ow,
                                    [NoExt EXCEPT !.s1 = t.i, !.s2 = t.i, !.f0 = i0, !.f1 = i, !.la = an.la,
                                                  !.f2 = j - 1, !.ft = j, !.ok = IF ow THEN i ELSE 0,
                                                  !.ck = IF hasc THEN as.i + 1 ELSE 0])>> \o t.ns \o as.ns)

\* Const: Annotation* CONST Type IDENT "=" Value ";"
PConst(tk, i0, i, p, an) ==
  LET t == PType(tk, i + 1, Append(p, "t"))
  IN IF ~t.ok THEN t
     ELSE IF K(tk, t.i) # "IDENT" THEN PFail(t.i)
     ELSE IF K(tk, t.i + 1) # "=" THEN PFail(t.i + 1)
     ELSE LET v == PValue(tk, t.i + 2)
          IN IF ~v.ok THEN PFail(v.i)
             ELSE IF K(tk, v.i) # ";" THEN PFail(v.i)
             ELSE POk(v.i + 1, <<Node(p, "const", tk.x[t.i], v.v, "", an.anns, FALSE,
                                     [NoExt EXCEPT !.s1 = t.i, !.s2 = t.i, !.f0 = i0, !.f1 = i, !.la = an.la,
                                                   !.f2 = v.i - 1, !.ft = v.i])>> \o t.ns)

\* Field: Annotation* Type IDENT ("=" Value)? ";"
PField(tk, i0, i, p, an) ==
  LET t == PType(tk, i, Append(p, "t"))
  IN IF ~t.ok THEN t
     ELSE IF K(tk, t.i) # "IDENT" THEN PFail(t.i)
     ELSE LET hasv == K(tk, t.i + 1) = "="
              v == IF hasv THEN PValue(tk, t.i + 2) ELSE [ok |-> TRUE, i |-> t.i + 1, v |-> ""]
          IN IF ~v.ok THEN PFail(v.i)
             ELSE IF K(tk, v.i) # ";" THEN PFail(v.i)
             ELSE POk(v.i + 1, <<Node(p, "field", tk.x[t.i], v.v, IF hasv THEN "v" ELSE "", an.anns, FALSE,
                                     [NoExt EXCEPT !.s1 = t.i, !.s2 = t.i, !.f0 = i0, !.f1 = i, !.la = an.la,
                                                   !.f2 = v.i - 1, !.ft = v.i])>> \o t.ns)

\* EnumElement: Annotation* IDENT ("=" Lit)?      (annotations are parsed, not stored)
PElem(tk, i0, i, p, an) ==
  IF K(tk, i) # "IDENT" THEN PFail(i)
  ELSE LET hasv == K(tk, i + 1) = "="
           j == IF hasv THEN i + 3 ELSE i + 1
       IN IF hasv /\ K(tk, i + 2) \notin LitKinds THEN PFail(i + 2)
          ELSE POk(j, <<Node(p, "elem", tk.x[i], IF hasv THEN tk.x[i + 2] ELSE "", IF hasv THEN "v" ELSE "", <<>>, FALSE,
                            [NoExt EXCEPT !.s1 = i, !.s2 = i, !.f0 = i0, !.f1 = i, !.la = an.la, !.f2 = j - 1])>>)

RECURSIVE PBody(_, _, _, _)
\* members of an interface / parcelable up to and including "}"; returns index after "}"
PBody(tk, i, kind, k) ==
  IF K(tk, i) = "}" THEN POk(i + 1, <<>>)
  ELSE LET an == PAnns(tk, i, <<>>, 0)
           p == <<"item", Seg("m", k)>>
       IN IF ~an.ok THEN PFail(an.i)
          ELSE LET m == IF K(tk, an.i) = "CONST" THEN PConst(tk, i, an.i, p, an)
                        ELSE IF kind = "interface" THEN
                               (IF K(tk, an.i) \in TypeFirst \cup {"ONEWAY"} THEN PMethod(tk, i, an.i, p, an) ELSE PFail(an.i))
                        ELSE (IF K(tk, an.i) \in TypeFirst THEN PField(tk, i, an.i, p, an) ELSE PFail(an.i))
               IN IF ~m.ok THEN m
                  ELSE LET r == PBody(tk, m.i, kind, k + 1) IN IF r.ok THEN POk(r.i, m.ns \o r.ns) ELSE r

RECURSIVE PEnumBody(_, _, _)
\* CommaSep<EnumElement> "}" ; i is just after "{" or after a ","
PEnumBody(tk, i, k) ==
  IF K(tk, i) = "}" THEN POk(i + 1, <<>>)
  ELSE LET an == PAnns(tk, i, <<>>, 0)
       IN IF ~an.ok THEN PFail(an.i)
          ELSE LET e == PElem(tk, i, an.i, <<"item", Seg("m", k)>>, an)
               IN IF ~e.ok THEN e
                  ELSE IF K(tk, e.i) = "," THEN
                         LET r == PEnumBody(tk, e.i + 1, k + 1) IN IF r.ok THEN POk(r.i, e.ns \o r.ns) ELSE r
                  ELSE IF K(tk, e.i) = "}" THEN POk(e.i + 1, e.ns)
                  ELSE PFail(e.i)

-----------------------------------------------------------------------------
(* Document: Package Import* FwdDecl* Item EOF *)

RECURSIVE PImports(_, _, _)
PImports(tk, i, k) ==
  IF K(tk, i) # "IMPORT" THEN POk(i, <<>>)
  ELSE LET q == PQName(tk, i + 1)
       IN IF ~q.ok THEN PFail(q.i)
          ELSE IF Len(q.segs) < 2 THEN PFail(q.i)           \* IDENT ("." IDENT)+ : a "." is required
          ELSE IF K(tk, q.i) # ";" THEN PFail(q.i)
          ELSE LET r == PImports(tk, q.i + 1, k + 1)
               IN IF ~r.ok THEN r
                  ELSE POk(r.i, <<Node(<<Seg("i", k)>>, "imp", Last(q.segs), Dots(Front(q.segs)), "", <<>>, FALSE,
                                      [NoExt EXCEPT !.s1 = i + 1, !.s2 = q.i - 1, !.f0 = i, !.f1 = i,
                                                    !.f2 = q.i - 1, !.ft = q.i])>> \o r.ns)

PItem(tk, i0, i, an) ==
  LET ow == K(tk, i) = "ONEWAY"
      j == IF ow THEN i + 1 ELSE i
      kw == K(tk, j)
      kind == CASE kw = "INTERFACE" -> "interface" [] kw = "PARCELABLE" -> "parcelable" [] kw = "ENUM" -> "enum" [] OTHER -> ""
  IN IF kind = "" \/ (ow /\ kind # "interface") THEN PFail(j)
     ELSE IF K(tk, j + 1) # "IDENT" THEN PFail(j + 1)
     ELSE IF K(tk, j + 2) # "{" THEN PFail(j + 2)
     ELSE LET b == IF kind = "enum" THEN PEnumBody(tk, j + 3, 1) ELSE PBody(tk, j + 3, kind, 1)
          IN IF ~b.ok THEN b
             ELSE POk(b.i, <<Node(<<"item">>, "item", tk.x[j + 1], kind, "", an.anns, ow,
                                 [NoExt EXCEPT !.s1 = j + 1, !.s2 = j + 1, !.f0 = i0, !.f1 = i, !.la = an.la,
                                               !.f2 = b.i - 1, !.ok = IF ow THEN i ELSE 0])>> \o b.ns)

RECURSIVE PDecls(_, _, _)
\* forward declarations, then the item
PDecls(tk, i, k) ==
  LET an == PAnns(tk, i, <<>>, 0)
  IN IF ~an.ok THEN PFail(an.i)
     ELSE IF K(tk, an.i) = "PARCELABLE" THEN
            LET q == PQName(tk, an.i + 1)
            IN IF ~q.ok THEN PFail(q.i)
               ELSE IF K(tk, q.i) = ";" THEN
                      LET r == PDecls(tk, q.i + 1, k + 1)
                      IN IF ~r.ok THEN r
                         ELSE POk(r.i, <<Node(<<Seg("f", k)>>, "fwd", Last(q.segs), Dots(Front(q.segs)), "", <<>>, FALSE,
                                             [NoExt EXCEPT !.s1 = an.i + 1, !.s2 = q.i - 1, !.f0 = i, !.f1 = an.i,
                                                           !.la = an.la, !.f2 = q.i - 1, !.ft = q.i])>> \o r.ns)
               ELSE IF K(tk, q.i) = "{" /\ Len(q.segs) = 1 THEN PItem(tk, i, an.i, an)
               ELSE PFail(q.i)
     ELSE PItem(tk, i, an.i, an)

ParseToks(tk) ==
  IF K(tk, 1) # "PACKAGE" THEN [ok |-> FALSE, err |-> 1, ns |-> <<>>]
  ELSE LET q == PQName(tk, 2)
       IN IF ~q.ok THEN [ok |-> FALSE, err |-> q.i, ns |-> <<>>]
          ELSE IF K(tk, q.i) # ";" THEN [ok |-> FALSE, err |-> q.i, ns |-> <<>>]
          ELSE LET pkg == Node(<<"pkg">>, "pkg", Dots(q.segs), "", "", <<>>, FALSE,
                               [NoExt EXCEPT !.s1 = 2, !.s2 = q.i - 1, !.f0 = 1, !.f1 = 1, !.f2 = q.i - 1, !.ft = q.i])
                   im == PImports(tk, q.i + 1, 1)
               IN IF ~im.ok THEN [ok |-> FALSE, err |-> im.i, ns |-> <<>>]
                  ELSE LET de == PDecls(tk, im.i, 1)
                       IN IF ~de.ok THEN [ok |-> FALSE, err |-> de.i, ns |-> <<>>]
                          ELSE IF de.i <= Len(tk.k) THEN [ok |-> FALSE, err |-> de.i, ns |-> <<>>]
                          ELSE \* forward declarations come before the item in the node list
                               [ok |-> TRUE, err |-> 0, ns |-> <<pkg>> \o im.ns \o de.ns]

ParseDoc(d) == ParseToks(Tokens(d))

\* overflowing transact codes are the one defect the grammar itself does not see (C03)
BadCodes(tk, ns) == {i \in DOMAIN ns : ns[i].c = "method" /\ ns[i].x.ck # 0 /\ ~FitsU32(tk.x[ns[i].x.ck])}

-----------------------------------------------------------------------------
(* Comparison with an observed node (structure only; positions are AidlLayout's business) *)
AnnNorm(ann) == [j \in DOMAIN ann |-> [n |-> ann[j].n, kv |-> {ann[j].kv[x] : x \in DOMAIN ann[j].kv}]]

SameStructure(sn, on, stage) ==
  /\ on.p = sn.p /\ on.c = sn.c /\ on.n = sn.n /\ on.b = sn.b
  /\ (sn.a = "{*}" \/ on.a = sn.a)
  /\ AnnNorm(on.ann) = sn.ann
  /\ (sn.c = "item" => on.ow = sn.ow)
  /\ (sn.c = "method" /\ stage = "parsed" => on.ow = sn.ow)

TreeMatches(sns, ons, stage) ==
  /\ Len(sns) = Len(ons)
  /\ \A i \in DOMAIN sns : SameStructure(sns[i], ons[i], stage)
=============================================================================
