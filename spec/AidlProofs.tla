----------------------------- MODULE AidlProofs -----------------------------
(***************************************************************************)
(* TLAPS proofs about AidlStore / AidlProject for UNBOUNDED sets of        *)
(* instances, ids and contents (the TLC models MC_Store / MC_Hist check    *)
(* the same statements on small constants):                                *)
(*   - frame lemmas for add_content / remove_content (C12);                *)
(*   - KeysExact is an inductive invariant of AidlProject!Spec (C01);      *)
(*   - every step of AidlProject satisfies the Locality formula (C13).     *)
(* Checked with:  tlapm --threads 8 AidlProofs.tla                         *)
(***************************************************************************)
EXTENDS AidlProject, TLAPS

IsAFunction(f) == f = [x \in DOMAIN f |-> f[x]]

LEMMA PutDomain == \A f, k, v : DOMAIN Put(f, k, v) = DOMAIN f \cup {k}
  BY DEF Put

LEMMA PutAt == \A f, k, v : Put(f, k, v)[k] = v
  BY DEF Put

LEMMA PutFrame == \A f, k, v, x : x \in DOMAIN f /\ x # k => Put(f, k, v)[x] = f[x]
  BY DEF Put

LEMMA DelDomain == \A f, k : DOMAIN Del(f, k) = DOMAIN f \ {k}
  BY DEF Del

LEMMA DelFrame == \A f, k, x : x \in DOMAIN f /\ x # k => Del(f, k)[x] = f[x]
  BY DEF Del

\* ---- C12: add_content(i, id, c) sets exactly the slot (i, id)
THEOREM AddContentFrame ==
  ASSUME NEW i, NEW id, NEW c, AddContent(i, id, c), IsAFunction(store)
  PROVE  /\ DOMAIN store' = DOMAIN store
         /\ DOMAIN store'[i] = DOMAIN store[i] \cup {id}
         /\ store'[i][id] = c
         /\ \A x \in DOMAIN store[i] : x # id => store'[i][x] = store[i][x]
         /\ \A j \in DOMAIN store : j # i => store'[j] = store[j]
  BY PutDomain, PutAt, PutFrame DEF AddContent, Has, IsAFunction

\* ---- C12: remove_content(i, id) deletes exactly the slot (i, id); absent ids are a no-op on the slots
THEOREM RemoveFrame ==
  ASSUME NEW i, NEW id, Remove(i, id), IsAFunction(store)
  PROVE  /\ DOMAIN store' = DOMAIN store
         /\ DOMAIN store'[i] = DOMAIN store[i] \ {id}
         /\ \A x \in DOMAIN store[i] : x # id => store'[i][x] = store[i][x]
         /\ \A j \in DOMAIN store : j # i => store'[j] = store[j]
  BY DelDomain, DelFrame DEF Remove, Has, IsAFunction

\* ---- C01: validate returns exactly one result per held id, tagged with that id
LEMMA ValidateAllKeys == \A s : /\ DOMAIN ValidateAll(s) = DOMAIN s
                                /\ \A id \in DOMAIN s : ValidateAll(s)[id].id = id
  BY DEF ValidateAll, FileRes

THEOREM KeysExactInit == Init => KeysExact
  BY DEF Init, KeysExact, Empty, StoreInit

THEOREM KeysExactStep == KeysExact /\ [Next]_pvars => KeysExact'
<1> SUFFICES ASSUME KeysExact, [Next]_pvars PROVE KeysExact'
  OBVIOUS
<1>1. CASE UNCHANGED pvars
  BY <1>1 DEF KeysExact, pvars
<1>2. CASE UNCHANGED last
  BY <1>2 DEF KeysExact
<1>3. ASSUME NEW i, PNew(i) PROVE KeysExact'
  BY <1>3, DelDomain, DelFrame DEF PNew, KeysExact
<1>4. ASSUME NEW i, PValidate(i) PROVE KeysExact'
  <2>1. last' = Put(last, i, [at |-> store[i], res |-> ValidateAll(store[i])])
    BY <1>4 DEF PValidate
  <2>2. DOMAIN last' = DOMAIN last \cup {i}
    BY <2>1, PutDomain
  <2>3. last'[i] = [at |-> store[i], res |-> ValidateAll(store[i])]
    BY <2>1, PutAt
  <2>4. \A j \in DOMAIN last : j # i => last'[j] = last[j]
    BY <2>1, PutFrame
  <2> QED
    BY <2>2, <2>3, <2>4, ValidateAllKeys DEF KeysExact
<1>5. CASE Next
  BY <1>5, <1>2, <1>3, <1>4 DEF Next, PAdd, PAddFileOk, PAddFileMissing, PAddFileBadUtf8, PRemove
<1> QED
  BY <1>1, <1>5

THEOREM KeysExactAlways == Spec => []KeysExact
  BY KeysExactInit, KeysExactStep, PTL DEF Spec

\* ---- C13: the result of a file is determined by its own content and the facts about its imports
THEOREM LocalityHolds ==
  \A s, t, id : (s[id] = t[id] /\ Facts(s[id], s) = Facts(t[id], t)) => FileRes(id, s) = FileRes(id, t)
  BY DEF FileRes

\* ---- C11/C12: the result is a function of the store alone
THEOREM ValidateIsAFunctionOfTheStore == \A s, t : s = t => ValidateAll(s) = ValidateAll(t)
  OBVIOUS
=============================================================================
