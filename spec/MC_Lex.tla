------------------------------- MODULE MC_Lex -------------------------------
(***************************************************************************)
(* C03 (lexical part) / C01 / C04: character-level documents.              *)
(* Every keyword, reserved word, primitive, direction, boolean and type    *)
(* keyword x variants {w, wX, w_, w2, w minus last letter, Capitalised,    *)
(* ww, w + multi-byte letter} in every name slot and keyword slot; numeric  *)
(* forms; unterminated strings / comments; strings containing comment      *)
(* openers and vice versa; non-ASCII atoms in every lexical context.       *)
(* Each state is one document (a sequence of atoms); the specification's   *)
(* own lexer + tree builder decide it (verdict attached), the replay        *)
(* compares the library.                                                   *)
(***************************************************************************)
EXTENDS AidlLex, Json, IOUtils

Chars(s) == [i \in 1..Len(s) |-> SubSeq(s, i, i)]

Words == DOMAIN Literals \cup Reserved

Upper(c) == CASE c = "a" -> "A" [] c = "b" -> "B" [] c = "c" -> "C" [] c = "d" -> "D" [] c = "e" -> "E" [] c = "f" -> "F"
              [] c = "g" -> "G" [] c = "i" -> "I" [] c = "l" -> "L" [] c = "n" -> "N" [] c = "o" -> "O" [] c = "p" -> "P"
              [] c = "r" -> "R" [] c = "s" -> "S" [] c = "t" -> "T" [] c = "v" -> "V" [] c = "w" -> "W" [] OTHER -> c

Variants(w) == {Chars(w), Chars(w \o "X"), Chars(w \o "_"), Chars(w \o "2"), Chars(SubSeq(w, 1, Len(w) - 1)),
                Chars(Upper(SubSeq(w, 1, 1)) \o SubSeq(w, 2, Len(w))), Chars(w \o w),
                Chars(w) \o <<"EACUTE">>, <<"CJK">> \o Chars(w), Chars("_" \o w), Chars(w) \o <<"ARDIGIT">>,
                Chars(w) \o <<"FWDIGIT">> \o Chars("y")}

Numerics == {Chars(x) : x \in {"0", "1", "007", "42", "4294967295", "4294967296", "99999999999", "1.5", "1.", ".5", "-5", "-.5f",
                               "+3", "1f", "1.5f", "1f2", "1e5", "0x10", "1_0", "--1", "+", "-", "1.2.3", "1abc", "..", "1..2",
                               "18446744073709551615", "18446744073709551616", "340282366920938463463374607431768211456",
                               "00000000000000000000000000000000000001"}}
            \cup {<<"ARDIGIT">>, <<"1", "ARDIGIT">>, <<"ARDIGIT", "f">>, <<"x", "ARDIGIT">>, <<"1", ".", "FWDIGIT">>, <<"-", "ARDIGIT">>}

Specials == {Chars("\"C:\\\""), Chars("\"a\\\"b\""), Chars("\"\\\\\""), Chars("\"\\n\""), Chars("\"abc\""), Chars("\"a/*b*/c\""), Chars("\"unterminated"), Chars("\"a") \o <<"LF">> \o Chars("b\""),
             Chars("\"") \o <<"EACUTE", "CJK", "EMOJI">> \o Chars("\""), Chars("/* c */x"), Chars("/* \"q\" */x"), Chars("/* open"),
             Chars("/*/ x */y"), Chars("/**/x"), Chars("/***/x"), Chars("// c") \o <<"LF">> \o Chars("x"), Chars("// c"),
             Chars("x// /* c") \o <<"CR", "LF">>, Chars("x/y"), Chars("x*y"), Chars("@A"), Chars("@"), Chars("@1"), Chars("@A@B"),
             Chars("x") \o <<"NBSP">> \o Chars("y"), Chars("x") \o <<"COMB">>, <<"EMOJI">>, <<"IDSP">> \o Chars("x") \o <<"LSEP">>,
             Chars("a.b"), Chars("a . b"), Chars("a..b"), Chars("a.1"), Chars("x") \o <<"TAB", "VT", "FF", "NEL">> \o Chars("x"),
             Chars("#"), Chars("$x"), Chars("x'"), Chars("x\\y"), Chars("`x`"), <<"CR">>, <<"CR", "LF">>}

Fills == UNION {Variants(w) : w \in Words} \cup Numerics \cup Specials

\* frames: text before / after the slot
Frames ==
  [kw      |-> [pre |-> "", suf |-> " p; interface I { }"],
   pkg     |-> [pre |-> "package ", suf |-> "; interface I { }"],
   item    |-> [pre |-> "package p; interface ", suf |-> " { }"],
   itemkw  |-> [pre |-> "package p; ", suf |-> " I { }"],
   mname   |-> [pre |-> "package p; interface I { void ", suf |-> "(); }"],
   type    |-> [pre |-> "package p; interface I { ", suf |-> " f(); }"],
   dir     |-> [pre |-> "package p; interface I { void f(", suf |-> " int x); }"],
   argname |-> [pre |-> "package p; interface I { void f(in int ", suf |-> "); }"],
   value   |-> [pre |-> "package p; interface I { const int C = ", suf |-> "; }"],
   code    |-> [pre |-> "package p; interface I { void f() = ", suf |-> "; }"],
   elem    |-> [pre |-> "package p; enum E { ", suf |-> ", B }"],
   annkey  |-> [pre |-> "package p; @A(", suf |-> "=1) interface I { }"],
   glued   |-> [pre |-> "package p; interface I { void f(in", suf |-> " x); }"]]

\* MODE = "inject": every hazard atom at EVERY character gap of a frame document that contains every construct
Hazard == {"EACUTE", "CJK", "EMOJI", "COMB", "NBSP", "IDSP", "LSEP", "NEL", "CR", "LF", "TAB", "\"", "/", "*", "ARDIGIT"}
InjectFrames ==
  [small |-> "package a.b; import c.D; /** doc */ @A(k=1) interface I { /* c */ oneway void f(in @B List<D> x, out int[] y) = 7; const String S = \"s\"; }",
   parc  |-> "package p; parcelable P { /** d */ int a = 1; String s = \"x\"; float f = -1.5f; int[] arr = {1, 2}; const int C = A.B; Map m; }",
   enum  |-> "package p; /** E */ enum E { /** first */ A = 1, B, @X C = \"c\", } // end"]
Inject == IOEnv.MODE = "inject"

VARIABLES slot, fill
vars == <<slot, fill>>
Init == IF Inject
        THEN /\ slot \in (IF IOEnv.SLOT = "all" THEN DOMAIN InjectFrames ELSE {IOEnv.SLOT})
             /\ fill \in {<<h, p>> : h \in Hazard, p \in 0..Len(InjectFrames[slot])}
        ELSE slot \in (IF IOEnv.SLOT = "all" THEN DOMAIN Frames ELSE {IOEnv.SLOT}) /\ fill \in Fills
Next == UNCHANGED vars
Spec == Init /\ [][Next]_vars

DocAtoms(s, f) == IF Inject
                  THEN LET fr == Chars(InjectFrames[s]) IN SubSeq(fr, 1, f[2]) \o <<f[1]>> \o SubSeq(fr, f[2] + 1, Len(fr))
                  ELSE Chars(Frames[s].pre) \o f \o Chars(Frames[s].suf)

Verdict(at) == LET lx == Lex(at) IN
               IF lx.err # 0 THEN [lexed |-> FALSE, ok |-> FALSE, at |-> lx.err]
               ELSE LET tk == Tokens(lx.pieces)
                        pr == ParseToks(tk)
                    IN [lexed |-> TRUE, ok |-> pr.ok /\ (pr.ok => BadCodes(tk, pr.ns) = {}), at |-> pr.err]

Emit == PrintT("SCEN " \o ToJson([slot |-> slot, atoms |-> DocAtoms(slot, fill), v |-> Verdict(DocAtoms(slot, fill))]))

\* design-level sanity of the lexer model: it always makes progress and re-assembles the text
RECURSIVE Glue(_)
Glue(pcs) == IF pcs = <<>> THEN <<>> ELSE pcs[1][3] \o Glue(Tail(pcs))
LexReassembles == LET at == DocAtoms(slot, fill)
                      lx == Lex(at)
                  IN IF lx.err = 0 THEN Glue(lx.pieces) = at
                     ELSE Glue(lx.pieces) = SubSeq(at, 1, lx.err - 1)
=============================================================================
