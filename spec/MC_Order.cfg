SPECIFICATION Spec
INVARIANTS Deterministic Sorted
CHECK_DEADLOCK FALSE
