SPECIFICATION MCSpec
CONSTANTS
  Inst <- MCInst
  Ids <- MCIds
  Contents <- MCContents
  Attr <- MCAttr
INVARIANTS KeysExact PureFunction
PROPERTIES OnlyNamedSlotChanges Locality
VIEW View
CHECK_DEADLOCK FALSE
