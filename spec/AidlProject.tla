---------------------------- MODULE AidlProject ----------------------------
(***************************************************************************)
(* AidlStore + what a validation returns, abstractly (C01, C11, C12, C13). *)
(* A content c has attributes Attr[c] = [tree, key, kind, imports]:        *)
(* whether it yields a tree, the key "package.Name" it registers, the kind *)
(* of its item and the set of qualified names it imports.                  *)
(* The result for a file is a function of its own content and of the FACTS *)
(* about its imports (C13); the result of validate is a function of the    *)
(* store (C11/C12).                                                        *)
(***************************************************************************)
EXTENDS AidlStore

CONSTANTS Inst, Ids, Contents, Attr

VARIABLE last           \* instance -> [at |-> store snapshot, res |-> result]  (observation)

pvars == <<store, last>>

\* key -> set of kinds registered under it by the files of s (id -> content)
KindsUnder(q, s) == {Attr[s[id]].kind : id \in {x \in DOMAIN s : Attr[s[x]].tree /\ Attr[s[x]].key = q}}

Facts(c, s) == IF Attr[c].tree THEN [q \in Attr[c].imports |-> KindsUnder(q, s)] ELSE <<>>

FileRes(id, s) == [id |-> id, c |-> s[id], facts |-> Facts(s[id], s)]

ValidateAll(s) == [id \in DOMAIN s |-> FileRes(id, s)]

Init == StoreInit /\ last = Empty

PNew(i) == New(i) /\ last' = Del(last, i)
PAdd(i, id, c) == AddContent(i, id, c) /\ UNCHANGED last
PAddFileOk(i, id, c) == AddFileOk(i, id, c) /\ UNCHANGED last
PAddFileMissing(i, id) == AddFileMissing(i, id) /\ UNCHANGED last
PAddFileBadUtf8(i, id) == AddFileBadUtf8(i, id) /\ UNCHANGED last
PRemove(i, id) == Remove(i, id) /\ UNCHANGED last
PValidate(i) == ReadOnly(i) /\ last' = Put(last, i, [at |-> store[i], res |-> ValidateAll(store[i])])

Next == \E i \in Inst :
          \/ PNew(i)
          \/ PValidate(i)
          \/ \E id \in Ids : \/ PRemove(i, id)
                             \/ PAddFileMissing(i, id)
                             \/ PAddFileBadUtf8(i, id)
                             \/ \E c \in Contents : PAdd(i, id, c) \/ PAddFileOk(i, id, c)

Spec == Init /\ [][Next]_pvars

\* ---- C01: one result per id currently held, each tagged with its own id
KeysExact == \A i \in DOMAIN last :
               /\ DOMAIN last[i].res = DOMAIN last[i].at
               /\ \A id \in DOMAIN last[i].res : last[i].res[id].id = id

\* ---- C11/C12: the result is a function of the (id, content) pairs and of nothing else:
\* two instances that hold equal maps have equal results whatever their histories
PureFunction == \A i, j \in DOMAIN last : last[i].at = last[j].at => last[i].res = last[j].res

\* ---- C12: each slot holds the latest content added under that id (checked as an action
\* property: the only slots that change are the ones the action names)
OnlyNamedSlotChanges ==
  [][\A i \in DOMAIN store \cap DOMAIN store' :
        Cardinality({id \in DOMAIN store[i] \cup DOMAIN store'[i] :
                       (id \in DOMAIN store[i]) # (id \in DOMAIN store'[i])
                       \/ (id \in DOMAIN store[i] /\ id \in DOMAIN store'[i] /\ store[i][id] # store'[i][id])}) <= 1
        \/ store'[i] = Empty]_pvars

\* ---- C13: a file's result changes only if its own content or its facts change
Locality ==
  [][\A i \in DOMAIN store \cap DOMAIN store' : \A id \in DOMAIN store[i] \cap DOMAIN store'[i] :
        (store[i][id] = store'[i][id] /\ Facts(store[i][id], store[i]) = Facts(store'[i][id], store'[i]))
          => FileRes(id, store[i]) = FileRes(id, store'[i])]_pvars

\* the exhaustive model ignores the observation variable
View == store
=============================================================================
