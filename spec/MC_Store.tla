------------------------------ MODULE MC_Store ------------------------------
(* Bounded model of AidlProject: 1-2 instances, 3 ids, 4 structured contents *)
(* (an interface importing p.B, a parcelable p.B, an enum p.B, malformed).  *)
EXTENDS AidlProject

MCInst == {1}
MCIds == {"a", "b", "c"}
MCContents == {"itf", "par", "enu", "bad"}
MCAttr == [c \in MCContents |->
   CASE c = "itf" -> [tree |-> TRUE, key |-> "p.A", kind |-> "interface", imports |-> {"p.B"}]
     [] c = "par" -> [tree |-> TRUE, key |-> "p.B", kind |-> "parcelable", imports |-> {}]
     [] c = "enu" -> [tree |-> TRUE, key |-> "p.B", kind |-> "enum", imports |-> {}]
     [] c = "bad" -> [tree |-> FALSE, key |-> "", kind |-> "", imports |-> {}]]

\* the instance exists from the start (New is still explored: it empties the store)
MCInit == store = [i \in MCInst |-> Empty] /\ last = Empty
MCSpec == MCInit /\ [][Next]_pvars
=============================================================================
