------------------------------ MODULE MC_Hist ------------------------------
(***************************************************************************)
(* Behaviours of AidlProject as operation histories (C12, C13).            *)
(* MODE = "hist": every history of length DEPTH over the operation         *)
(*   alphabet OPS ("core": add/remove/validate, "all": plus the three      *)
(*   add_file outcomes), from the empty parser (FROM = "empty") or from    *)
(*   every abstract state (FROM = "all"); each maximal history is emitted  *)
(*   with the abstract store after every step.                             *)
(* MODE = "trans": every single transition (from, op, to) of the model     *)
(*   with the richer content set used for locality (C13).                  *)
(***************************************************************************)
EXTENDS AidlProject, Json, IOUtils

Mode == IOEnv.MODE
Depth == atoi(IOEnv.DEPTH)
AllOps == IOEnv.OPS = "all"
FromAll == IOEnv.FROM = "all"
Rich == IOEnv.CONTENTS = "rich"

VARIABLES h, start
hvars == <<store, last, h, start>>

HIds == IF IOEnv.NIDS = "1" THEN {"a"}
        ELSE IF IOEnv.NIDS = "2" THEN {"a", "b"}
        ELSE IF Rich /\ IOEnv.TIER # "thorough" THEN {"a", "b"} ELSE {"a", "b", "c"}
HContents == IF Rich THEN {"itfA1", "itfA2", "parB1", "parB2", "enuB", "itfC", "parU", "bad"}
             ELSE {"itf", "par", "enu", "bad"}

HAttr == [c \in HContents |->
   CASE c = "itf" -> [tree |-> TRUE, key |-> "p.A", kind |-> "interface", imports |-> {"p.B"}]
     [] c = "par" -> [tree |-> TRUE, key |-> "p.B", kind |-> "parcelable", imports |-> {}]
     [] c = "enu" -> [tree |-> TRUE, key |-> "p.B", kind |-> "enum", imports |-> {}]
     [] c = "bad" -> [tree |-> FALSE, key |-> "", kind |-> "", imports |-> {}]
     [] c \in {"itfA1", "itfA2"} -> [tree |-> TRUE, key |-> "p.A", kind |-> "interface", imports |-> {"p.B", "q.C"}]
     [] c \in {"parB1", "parB2"} -> [tree |-> TRUE, key |-> "p.B", kind |-> "parcelable", imports |-> {}]
     [] c = "enuB" -> [tree |-> TRUE, key |-> "p.B", kind |-> "enum", imports |-> {}]
     [] c = "itfC" -> [tree |-> TRUE, key |-> "q.C", kind |-> "interface", imports |-> {"p.B"}]
     [] c = "parU" -> [tree |-> TRUE, key |-> "z.U", kind |-> "parcelable", imports |-> {}]]

AllStores == UNION {[S -> HContents] : S \in SUBSET HIds}

Ops == [k : {"add"}, id : HIds, c : HContents] \cup [k : {"remove"}, id : HIds] \cup {[k |-> "validate"]}
       \cup (IF AllOps THEN [k : {"addfile"}, id : HIds, c : HContents] \cup [k : {"missing", "badutf8"}, id : HIds] ELSE {})

Apply(op) ==
  CASE op.k = "add" -> PAdd(1, op.id, op.c)
    [] op.k = "addfile" -> PAddFileOk(1, op.id, op.c)
    [] op.k = "missing" -> PAddFileMissing(1, op.id)
    [] op.k = "badutf8" -> PAddFileBadUtf8(1, op.id)
    [] op.k = "remove" -> PRemove(1, op.id)
    [] op.k = "validate" -> PValidate(1)

HInit == /\ store \in (IF FromAll \/ Mode = "trans" THEN {[i \in {1} |-> s] : s \in AllStores} ELSE {[i \in {1} |-> Empty]})
         /\ last = Empty /\ h = <<>> /\ start = store[1]

HNext == /\ Len(h) < (IF Mode = "trans" THEN 1 ELSE Depth)
         /\ \E op \in Ops : (Mode = "trans" => op.k # "validate") /\ Apply(op) /\ h' = Append(h, [op |-> op, after |-> store'[1]])
         /\ UNCHANGED start

HSpec == HInit /\ [][HNext]_hvars

Done == Len(h) = (IF Mode = "trans" THEN 1 ELSE Depth)
Emit == Done => PrintT("SCEN " \o ToJson([start |-> start, h |-> h]))
=============================================================================
