--------------------------- MODULE AidlValidate ---------------------------
(***************************************************************************)
(* Declarative layer of validation (DESIGN.md section 2.2, layer D).       *)
(*                                                                         *)
(* A file is a flat, pre-order sequence of NODES (records with the uniform *)
(* fields p, c, n, a, b, ann, ow, rk, doc, sym, full, dir, owr, code - see *)
(* spec/README.md). The operators below state, from the property texts, which *)
(* resolved kinds and which diagnostics a file deserves, given the keys    *)
(* registered by the files of the project.  Nothing here follows the Rust  *)
(* control flow.                                                           *)
(***************************************************************************)
EXTENDS Naturals, Sequences, FiniteSets, TLC

-----------------------------------------------------------------------------
(* Strings and small helpers *)

EndsWith(q, s) == Len(q) >= Len(s) /\ SubSeq(q, Len(q) - Len(s) + 1, Len(q)) = s

SeqToSet(s) == {s[i] : i \in DOMAIN s}

\* index of the node with path q, 0 if none
AtPath(ns, q) ==
  LET S == {j \in DOMAIN ns : ns[j].p = q}
  IN IF S = {} THEN 0 ELSE CHOOSE j \in S : TRUE

Child(ns, i, seg) == AtPath(ns, Append(ns[i].p, seg))

IsPfx(p, q) == Len(p) <= Len(q) /\ SubSeq(q, 1, Len(p)) = p

OfClass(ns, c) == {i \in DOMAIN ns : ns[i].c = c}

\* increasing sequence of the members of a finite set of naturals
RECURSIVE SortedSeq(_)
SortedSeq(S) == IF S = {} THEN <<>>
                ELSE LET m == CHOOSE x \in S : \A y \in S : x <= y
                     IN <<m>> \o SortedSeq(S \ {m})

-----------------------------------------------------------------------------
(* Android built-ins (C05).  Simple name -> qualified name.  FileDescriptor's *)
(* qualified name is deliberately absent: the property does not pin it and  *)
(* generators never import it.                                              *)

BuiltinNames == {"IBinder", "FileDescriptor", "ParcelFileDescriptor", "ParcelableHolder"}

BuiltinQN(s) == CASE s = "IBinder" -> "android.os.IBinder"
                  [] s = "ParcelFileDescriptor" -> "android.os.ParcelFileDescriptor"
                  [] s = "ParcelableHolder" -> "android.os.ParcelableHolder"
                  [] OTHER -> "?no-qualified-name?"

BuiltinOfQN(q) == CASE q = "android.os.IBinder" -> "IBinder"
                    [] q = "android.os.ParcelFileDescriptor" -> "ParcelFileDescriptor"
                    [] q = "android.os.ParcelableHolder" -> "ParcelableHolder"
                    [] OTHER -> ""

\* the only built-in that may be written fully qualified without an import
QualifiableQN == {"android.os.ParcelFileDescriptor"}

-----------------------------------------------------------------------------
(* Names *)

QN(n) == IF n.a = "" THEN n.n ELSE n.a \o "." \o n.n      \* import / forward declaration

PkgNode(ns) == ns[CHOOSE i \in DOMAIN ns : ns[i].c = "pkg"]
ItemIx(ns) == CHOOSE i \in DOMAIN ns : ns[i].c = "item"
KeyOfNodes(ns) == PkgNode(ns).n \o "." \o ns[ItemIx(ns)].n

\* keys registered by a set of observations: key -> set of kinds (several files may
\* register the same key; then any of the kinds is acceptable, C05 / Appendix A)
KeysOf(obs) ==
  LET T == {j \in DOMAIN obs : obs[j].has_tree}
      K == {KeyOfNodes(obs[j].nodes) : j \in T}
  IN [k \in K |-> {obs[j].nodes[ItemIx(obs[j].nodes)].a : j \in {x \in T : KeyOfNodes(obs[x].nodes) = k}}]

-----------------------------------------------------------------------------
(* C05: resolution *)

ImpQNs(ns) == {QN(ns[i]) : i \in OfClass(ns, "imp")}
FwdSimple(ns) == {ns[i].n : i \in {j \in OfClass(ns, "fwd") : ns[j].a = ""}}

MatchImps(name, ns) == {q \in ImpQNs(ns) : q = name \/ EndsWith(q, "." \o name)}

AllowedRK(name, ns, keys) ==
  LET M == MatchImps(name, ns) IN
  IF name \in QualifiableQN THEN {<<"android", BuiltinOfQN(name)>>}
  ELSE IF M # {} THEN
     UNION { IF BuiltinOfQN(q) # "" THEN {<<"android", BuiltinOfQN(q)>>}
             ELSE IF q \in DOMAIN keys THEN {<<"item", k, q>> : k \in keys[q]}
             ELSE {<<"item", "unknown", q>>} : q \in M }
  ELSE IF name \in FwdSimple(ns) THEN {<<"item", "fwd", name>>}
  ELSE IF name \in BuiltinNames THEN {<<"android", name>>}
  ELSE {<<"unresolved">>}

NamedTypes(ns) == {i \in DOMAIN ns : ns[i].c = "type" /\ ns[i].a = "named"}

KindsOK(ns, keys) == \A i \in NamedTypes(ns) : ns[i].rk \in AllowedRK(ns[i].n, ns, keys)

\* the 17 categories
Cat(n) == IF n.a # "named" THEN n.a
          ELSE IF Len(n.rk) = 0 THEN "?"
          ELSE IF n.rk[1] = "unresolved" THEN "unresolved"
          ELSE n.rk[2]

Categories == {"prim", "void", "string", "charseq", "array", "list", "map",
               "IBinder", "FileDescriptor", "ParcelFileDescriptor", "ParcelableHolder",
               "interface", "parcelable", "enum", "fwd", "unknown", "unresolved"}

-----------------------------------------------------------------------------
(* Expected diagnostics.  An expected item is                              *)
(*   [fam, sev, rs, rel, opt]                                              *)
(* fam: diagnostic family, sev: "E"/"W", rs: set of acceptable ranges,     *)
(* rel: set of acceptable related ranges ({} = unconstrained),             *)
(* opt: TRUE when the property leaves it open whether it is reported.      *)

Item(fam, sev, rs, rel) == [fam |-> fam, sev |-> sev, rs |-> rs, rel |-> rel, opt |-> FALSE]
OptItem(fam, sev, rs) == [fam |-> fam, sev |-> sev, rs |-> rs, rel |-> {}, opt |-> TRUE]

NameOrFull(n) == {n.sym, n.full}
AnyRange(n) == {n.sym, n.full} \cup (IF n.code = <<>> THEN {} ELSE {n.code})

TagFam(t) ==
  CASE t = "unknown_type" -> "unknown_type"
    [] t = "dup_import" -> "imp_dup"
    [] t = "unresolved_import" -> "imp_unres"
    [] t = "unused_import" -> "imp_unused"
    [] t = "fwd_conflict" -> "fwd_conflict"
    [] t = "fwd_repeat" -> "fwd_repeat"
    [] t = "fwd_unused" -> "fwd_unused"
    [] t = "fwd_used" -> "fwd_used"
    [] t \in {"raw_list", "raw_map"} -> "raw"
    [] t \in {"multi_dim", "bad_array_elem", "bad_list_elem", "bad_map_key", "bad_map_value"} -> "elem"
    [] t = "redundant_oneway" -> "red_ow"
    [] t = "oneway_return" -> "ow_ret"
    [] t \in {"missing_dir", "bad_dir", "bad_arg", "oneway_dir"} -> "dir"
    [] t = "dup_method_name" -> "m_name"
    [] t = "mixed_ids" -> "m_mixed"
    [] t = "dup_method_id" -> "m_id"
    [] t \in {"syntax", "code_overflow"} -> "syntax"
    [] OTHER -> "?"

FamsOf(prop) ==
  CASE prop = "C05" -> {"unknown_type"}
    [] prop = "C06" -> {"imp_dup", "imp_unres", "imp_unused", "fwd_conflict", "fwd_repeat", "fwd_unused", "fwd_used"}
    [] prop = "C07" -> {"dir"}
    [] prop = "C08" -> {"raw", "elem"}
    [] prop = "C09" -> {"m_name", "m_mixed", "m_id"}
    [] prop = "C10" -> {"red_ow", "ow_ret"}
    [] OTHER -> {}

\* ---- C05: exactly one 'unknown type' Error on the name of every unresolved reference
ExpC05(ns) ==
  LET U == SortedSeq({i \in NamedTypes(ns) : ns[i].rk = <<"unresolved">>})
  IN [k \in DOMAIN U |-> Item("unknown_type", "E", {ns[U[k]].sym}, {})]

\* ---- C06
\* what a reference resolves to, for the purposes of "used": the scoping rule's answer where it leaves no choice
\* (so a reference that the code classifies wrongly does not excuse a wrong import diagnostic), else the observed one
ERK(ns, i, keys) ==
  LET A == AllowedRK(ns[i].n, ns, keys) IN IF Cardinality(A) = 1 THEN CHOOSE r \in A : TRUE ELSE ns[i].rk

UsedImport(ns, q, keys) ==
  \E i \in NamedTypes(ns) : LET rk == ERK(ns, i, keys) IN Len(rk) > 0 /\
     \/ rk[1] = "item" /\ rk[2] # "fwd" /\ rk[3] = q
     \/ rk[1] = "android" /\ BuiltinQN(rk[2]) = q

UsedFwd(ns, name, keys) == \E i \in NamedTypes(ns) : ERK(ns, i, keys) = <<"item", "fwd", name>>

ExpImports(ns, keys) ==
  LET I == SortedSeq(OfClass(ns, "imp"))
      One(k) ==
        LET n == ns[I[k]]
            q == QN(n)
            Earlier == {j \in 1..(k-1) : QN(ns[I[j]]) = q}
        IN IF Earlier # {} THEN
              LET f == ns[I[CHOOSE j \in Earlier : \A x \in Earlier : j <= x]]
              IN <<Item("imp_dup", "E", NameOrFull(n), NameOrFull(f))>>
           ELSE IF q \notin DOMAIN keys /\ BuiltinOfQN(q) = "" THEN
              <<Item("imp_unres", "W", NameOrFull(n), {})>>
           ELSE IF ~UsedImport(ns, q, keys) THEN
              <<Item("imp_unused", "W", NameOrFull(n), {})>>
           ELSE <<>>
      RECURSIVE Cat_(_)
      Cat_(k) == IF k > Len(I) THEN <<>> ELSE One(k) \o Cat_(k+1)
  IN Cat_(1)

ExpFwds(ns, keys) ==
  LET F == SortedSeq(OfClass(ns, "fwd"))
      ImpSimple == {ns[i].n : i \in OfClass(ns, "imp")}
      Conf(k) == ns[F[k]].n \in ImpSimple
      One(k) ==
        LET n == ns[F[k]]
            q == QN(n)
            Earlier == {j \in 1..(k-1) : QN(ns[F[j]]) = q /\ ~Conf(j)}
        IN IF Conf(k) THEN <<Item("fwd_conflict", "E", NameOrFull(n), {})>>
           ELSE IF Earlier # {} THEN
              LET f == ns[F[CHOOSE j \in Earlier : \A x \in Earlier : j <= x]]
              IN <<Item("fwd_repeat", "E", NameOrFull(n), NameOrFull(f))>>
           ELSE IF n.a = "" /\ UsedFwd(ns, n.n, keys) THEN <<Item("fwd_used", "W", NameOrFull(n), {})>>
           ELSE <<Item("fwd_unused", "W", NameOrFull(n), {})>>
      RECURSIVE Cat_(_)
      Cat_(k) == IF k > Len(F) THEN <<>> ELSE One(k) \o Cat_(k+1)
  IN Cat_(1)

ExpC06(ns, keys) == ExpImports(ns, keys) \o ExpFwds(ns, keys)

\* ---- C07
DirReq(cat) ==
  CASE cat \in {"array", "list", "map", "parcelable", "fwd"} -> "required"
    [] cat \in {"prim", "string", "charseq", "interface", "enum", "IBinder", "FileDescriptor", "unknown"} -> "in_or_none"
    [] cat = "ParcelFileDescriptor" -> "in_or_inout"
    [] cat = "ParcelableHolder" -> "never"
    [] cat = "void" -> "free"
    [] OTHER -> "none"        \* unresolved imposes nothing

TypeStart(t) == <<t.sym[1], t.sym[1], t.sym[3], t.sym[4], t.sym[3], t.sym[4]>>
FullStart(t) == <<t.full[1], t.full[1], t.full[3], t.full[4], t.full[3], t.full[4]>>

ArgItems(ns, ai, mow) ==
  LET arg == ns[ai]
      t == ns[Child(ns, ai, "t")]
      d == arg.a
      req == DirReq(Cat(t))
      at == IF d = "" THEN {TypeStart(t), FullStart(t)} ELSE {arg.dir}
      broken ==
        CASE req = "required" -> d = ""
          [] req = "in_or_none" -> d \in {"out", "inout"}
          [] req = "in_or_inout" -> d \in {"", "out"}
          [] req = "never" -> TRUE
          [] OTHER -> FALSE
  IN (IF broken THEN <<Item("dir", "E", at, {})>> ELSE <<>>)
     \o (IF req = "free" THEN <<OptItem("dir", "E", at)>> ELSE <<>>)
     \o (IF mow /\ d \in {"out", "inout"} THEN <<Item("dir", "E", {arg.dir}, {})>> ELSE <<>>)

ExpC07(ns) ==
  LET A == SortedSeq(OfClass(ns, "arg"))
      MethodOf(ai) == ns[AtPath(ns, SubSeq(ns[ai].p, 1, Len(ns[ai].p) - 1))]
      RECURSIVE Cat_(_)
      \* oneway "explicit or inherited from a oneway interface": the interface's own flag counts, whether or not
      \* the tree's per-method flag was set
      Cat_(k) == IF k > Len(A) THEN <<>> ELSE ArgItems(ns, A[k], MethodOf(A[k]).ow \/ ns[ItemIx(ns)].ow) \o Cat_(k+1)
  IN Cat_(1)

\* ---- C08
ArrayElemBad(cat) == cat \in {"array", "list", "map", "void", "charseq", "interface", "ParcelableHolder"}
ListElemOK(cat) == cat \in {"string", "parcelable", "fwd", "unknown", "IBinder", "ParcelFileDescriptor", "unresolved"}
MapValueBad(cat) == cat \in {"prim", "void", "enum"}

ContainerItems(ns, i) ==
  LET n == ns[i]
      g1 == Child(ns, i, "g1")
      g2 == Child(ns, i, "g2")
  IN CASE n.a = "array" ->
            IF ArrayElemBad(Cat(ns[g1])) THEN <<Item("elem", "E", NameOrFull(ns[g1]), {})>> ELSE <<>>
       [] n.a = "list" ->
            IF g1 = 0 THEN <<Item("raw", "W", NameOrFull(n), {})>>
            ELSE IF ~ListElemOK(Cat(ns[g1])) THEN <<Item("elem", "E", NameOrFull(ns[g1]), {})>> ELSE <<>>
       [] n.a = "map" ->
            IF g1 = 0 THEN <<Item("raw", "W", NameOrFull(n), {})>>
            ELSE (IF Cat(ns[g1]) = "string" THEN <<>>
                  ELSE IF Cat(ns[g1]) = "unresolved" THEN <<OptItem("elem", "E", NameOrFull(ns[g1]))>>
                  ELSE <<Item("elem", "E", NameOrFull(ns[g1]), {})>>)
                 \o (IF MapValueBad(Cat(ns[g2])) THEN <<Item("elem", "E", NameOrFull(ns[g2]), {})>> ELSE <<>>)
       [] OTHER -> <<>>

ExpC08(ns) ==
  LET C == SortedSeq({i \in OfClass(ns, "type") : ns[i].a \in {"array", "list", "map"}})
      RECURSIVE Cat_(_)
      Cat_(k) == IF k > Len(C) THEN <<>> ELSE ContainerItems(ns, C[k]) \o Cat_(k+1)
  IN Cat_(1)

\* ---- C09: one left-to-right pass over the methods (constants are transparent)
ExpC09(ns) ==
  LET M == SortedSeq(OfClass(ns, "method"))
      Dup(k) == \E j \in 1..(k-1) : ns[M[j]].n = ns[M[k]].n
      FirstNamed(k) == ns[M[CHOOSE j \in 1..k : ns[M[j]].n = ns[M[k]].n /\ \A x \in 1..(j-1) : ns[M[x]].n # ns[M[k]].n]]
      Live(k) == ~Dup(k)                         \* takes part in the code bookkeeping
      With(k) == {j \in 1..k : Live(j) /\ ns[M[j]].a # ""}
      Without(k) == {j \in 1..k : Live(j) /\ ns[M[j]].a = ""}
      Mixed(k) == With(k) # {} /\ Without(k) # {}
      One(k) ==
        LET m == ns[M[k]] IN
        IF Dup(k) THEN <<Item("m_name", "E", AnyRange(m), AnyRange(FirstNamed(k)))>>
        ELSE (IF Mixed(k) /\ ~Mixed(k-1) THEN <<Item("m_mixed", "E", AnyRange(m), {})>> ELSE <<>>)
             \o (LET Same == {j \in With(k-1) : ns[M[j]].a = m.a}
                 IN IF m.a # "" /\ Same # {} THEN
                       \* "pointing back to the earlier method": any earlier (live) method carrying that code
                       <<Item("m_id", "E", AnyRange(m), UNION {AnyRange(ns[M[j]]) : j \in Same})>>
                    ELSE <<>>)
      RECURSIVE Cat_(_)
      Cat_(k) == IF k > Len(M) THEN <<>> ELSE One(k) \o Cat_(k+1)
  IN Cat_(1)

\* ---- C10.  pows: what the source spells for each method (sequence of <<path, BOOLEAN>>)
Written(pows, p) == \E k \in DOMAIN pows : pows[k][1] = p /\ pows[k][2]

OnewayFlagsOK(ns, pows) ==
  LET iow == ns[ItemIx(ns)].ow
  IN \A i \in OfClass(ns, "method") : ns[i].ow = (iow \/ Written(pows, ns[i].p))

ExpC10(ns, pows) ==
  LET M == SortedSeq(OfClass(ns, "method"))
      iow == ns[ItemIx(ns)].ow
      One(k) ==
        LET m == ns[M[k]]
            rt == ns[Child(ns, M[k], "t")]
        IN (IF iow /\ Written(pows, m.p) THEN <<Item("red_ow", "W", {m.owr}, {})>> ELSE <<>>)
           \o (IF (m.ow \/ iow) /\ rt.a # "void" THEN <<Item("ow_ret", "E", NameOrFull(rt), {})>> ELSE <<>>)
      RECURSIVE Cat_(_)
      Cat_(k) == IF k > Len(M) THEN <<>> ELSE One(k) \o Cat_(k+1)
  IN Cat_(1)

-----------------------------------------------------------------------------
(* Matching expected items against the observed diagnostics of one slice:   *)
(* a perfect matching between required items (plus any subset of optional  *)
(* ones) and the slice's diagnostics (plus any subset of diagnostics whose  *)
(* wording is unknown).                                                     *)

Compat(e, d) ==
  /\ d.sev = e.sev
  /\ (TagFam(d.tag) = e.fam \/ d.tag = "?")
  /\ d.r \in e.rs
  /\ (e.rel = {} \/ \E k \in DOMAIN d.rel : d.rel[k].r \in e.rel)

\* every element of the sequence X (indices into E) gets its own compatible diagnostic out of the set D
RECURSIVE CoverItems(_, _, _, _)
CoverItems(X, D, E, ds) ==
  IF X = <<>> THEN TRUE
  ELSE \E d \in D : Compat(E[Head(X)], ds[d]) /\ CoverItems(Tail(X), D \ {d}, E, ds)

\* every element of the sequence Y (indices into ds) gets its own compatible item out of the set I (indices into E)
RECURSIVE CoverDiags(_, _, _, _)
CoverDiags(Y, I, E, ds) ==
  IF Y = <<>> THEN TRUE
  ELSE \E i \in I : Compat(E[i], ds[Head(Y)]) /\ CoverDiags(Tail(Y), I \ {i}, E, ds)

\* The slice is as expected iff there is a matching between expected items and diagnostics in which every REQUIRED
\* item and every diagnostic of the slice's families is matched; optional items and diagnostics of unknown wording
\* ("?") may stay unmatched.  By the Mendelsohn-Dulmage theorem such a matching exists iff there is one that covers
\* the required items and one that covers the slice's diagnostics - two searches that branch only over compatible
\* pairs (no enumeration of subsets).
SliceOK(E, ds, fams) ==
  LET V == {k \in DOMAIN ds : ds[k].stage = "valid"}
      O == {k \in V : TagFam(ds[k].tag) \in fams}
      W == {k \in V : ds[k].tag = "?"}
      Req == {k \in DOMAIN E : ~E[k].opt}
  IN /\ Cardinality(Req) <= Cardinality(O) + Cardinality(W)
     /\ Cardinality(O) <= Len(E)
     /\ CoverItems(SortedSeq(Req), O \cup W, E, ds)
     /\ CoverDiags(SortedSeq(O), DOMAIN E, E, ds)

-----------------------------------------------------------------------------
(* Per-property verdicts on one validated observation *)

C05ok(o, keys) == KindsOK(o.nodes, keys) /\ SliceOK(ExpC05(o.nodes), o.diags, FamsOf("C05"))
C06ok(o, keys) == SliceOK(ExpC06(o.nodes, keys), o.diags, FamsOf("C06"))
C07ok(o) == SliceOK(ExpC07(o.nodes), o.diags, FamsOf("C07"))
C08ok(o) == SliceOK(ExpC08(o.nodes), o.diags, FamsOf("C08"))
C09ok(o) == SliceOK(ExpC09(o.nodes), o.diags, FamsOf("C09"))
C10ok(o) == OnewayFlagsOK(o.nodes, o.pows) /\ SliceOK(ExpC10(o.nodes, o.pows), o.diags, FamsOf("C10"))

\* C11 (second sentence): ascending start positions
Sorted(ds) == \A k \in 1..(Len(ds) - 1) :
                 \/ ds[k].r[3] < ds[k+1].r[3]
                 \/ ds[k].r[3] = ds[k+1].r[3] /\ ds[k].r[4] <= ds[k+1].r[4]

\* C03: validation never drops a parse-stage diagnostic; no tree => at least one Error
NoDrop(o) == o.dropped = 0
NoTreeHasError(o) == o.has_tree \/ \E k \in DOMAIN o.diags : o.diags[k].sev = "E"

\* C04 (validation part): every validation diagnostic sits on a range of a node
OnNode(o) == \A k \in DOMAIN o.diags : o.diags[k].stage = "valid" => o.diags[k].an # <<>>
=============================================================================
