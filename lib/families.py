"""Scenario construction: TLC-emitted scenarios -> harness ops, and seeded random INPUT generators.

Generators produce inputs only (token sequences / texts / operation sequences). No expectation
about the library's behaviour is computed here."""
import random

import render as R

SIGNS = set(";,{}()[]<>=.-")
KW = {"package": "PACKAGE", "import": "IMPORT", "interface": "INTERFACE", "parcelable": "PARCELABLE",
      "enum": "ENUM", "oneway": "ONEWAY", "const": "CONST", "void": "VOID", "String": "STRING",
      "CharSequence": "CHAR_SEQUENCE", "List": "LIST", "Map": "MAP", "in": "DIRECTION", "out": "DIRECTION",
      "inout": "DIRECTION", "true": "BOOLEAN", "false": "BOOLEAN"}
PRIMS = ["byte", "short", "int", "long", "float", "double", "boolean", "char"]
for _p in PRIMS:
    KW[_p] = "PRIMITIVE"


def T(text, kind=None):
    if kind is None:
        if text in SIGNS:
            kind = text
        elif text in KW:
            kind = KW[text]
        elif text.startswith("@"):
            kind = "ANNOTATION"
        elif text.startswith('"'):
            kind = "QUOTED_STRING"
        elif text.isdigit():
            kind = "INTEGER"
        else:
            kind = "IDENT"
    return [kind, text]


def dotted(q):
    out = []
    for i, s in enumerate(q):
        if i:
            out.append(T("."))
        out.append(T(s, "IDENT"))
    return out


def project_scenario(s, src, extra_ops=(), parsed=False):
    """s = {"files": [{"id","toks"}], "main"} as emitted by TLC (MC_Validate)."""
    ops = [{"op": "new", "i": 1}]
    for f in s["files"]:
        pieces = R.default_layout(f["toks"])
        op = {"op": "add", "i": 1, "id": f["id"], "text": R.text_of(pieces)}
        if parsed:
            op["parsed"] = True
        ops.append(op)
    ops.append({"op": "validate", "i": 1})
    ops.extend(extra_ops)
    return {"sid": "", "src": src, "ops": ops, "main": s.get("main", "")}


# --------------------------------------------------------------------------------------
# random projects
# --------------------------------------------------------------------------------------
PKGS = [["p"], ["p", "q"], ["pkg"], ["other", "pkg"], ["g"], ["kg"]]
NAMES = ["Foo", "XFoo", "FooX", "Bar", "Baz", "Qux", "Foo2", "IFoo"]
BUILTINS = ["IBinder", "FileDescriptor", "ParcelFileDescriptor", "ParcelableHolder"]
MNAMES = ["f", "g", "h", "get", "set", "f2"]
CODES = ["", "", "", "1", "2", "3", "01", "10", "4294967295", "0", "007"]


class ProjGen:
    def __init__(self, rng, focus):
        self.r = rng
        self.focus = focus

    def type_(self, depth, refs, allow_void=False):
        r = self.r
        x = r.random()
        if depth <= 0 or x < 0.45:
            y = r.random()
            if y < 0.25:
                return [T(r.choice(PRIMS))]
            if y < 0.35:
                return [T("String")]
            if y < 0.40:
                return [T("CharSequence")]
            if y < 0.45 and allow_void:
                return [T("void")]
            if y < 0.52:
                return [T(r.choice(BUILTINS), "IDENT")]
            if y < 0.56:
                return dotted(["android", "os", "ParcelFileDescriptor"])
            if y < 0.60:
                return [T(r.choice(["List", "Map"]))]
            return dotted(r.choice(refs))
        if x < 0.62:
            return self.type_(depth - 1, refs) + [T("["), T("]")]
        if x < 0.80:
            return [T("List"), T("<")] + self.type_(depth - 1, refs) + [T(">")]
        k = [T("String")] if r.random() < 0.7 else self.type_(depth - 1, refs)
        return [T("Map"), T("<")] + k + [T(",")] + self.type_(depth - 1, refs) + [T(">")]

    def project(self):
        r = self.r
        nfiles = r.randint(1, 6)
        items = []  # (pkg, name, kind)
        used = set()
        for _ in range(nfiles):
            pkg, name = r.choice(PKGS), r.choice(NAMES)
            if (tuple(pkg), name) in used and r.random() < 0.8:
                continue
            used.add((tuple(pkg), name))
            items.append((pkg, name, r.choice(["interface", "parcelable", "enum", "interface", "parcelable"])))
        files = []
        for k, (pkg, name, kind) in enumerate(items):
            files.append({"id": f"f{k}", "toks": self.file_(pkg, name, kind, items)})
        return {"files": files, "main": "f0"}

    def file_(self, pkg, name, kind, items):
        r = self.r
        toks = [T("package")] + dotted(pkg) + [T(";")]
        # candidate import targets: project items, near-misses, unknowns, built-ins
        cands = [p + [n] for (p, n, _) in items]
        cands += [["zz", "Unk"], ["pkg", "Nope"], ["android", "os", "IBinder"], ["android", "os", "ParcelFileDescriptor"],
                  ["android", "os", "ParcelableHolder"]]
        imports = []
        for _ in range(r.choice([0, 1, 1, 2, 3, 4])):
            imports.append(r.choice(cands))
            if r.random() < 0.15:
                imports.append(imports[-1])
        if kind == "enum":
            imports = imports[:1] if r.random() < 0.3 else []
        for q in imports:
            toks += [T("import")] + dotted(q) + [T(";")]
        fwds = []
        for _ in range(r.choice([0, 0, 0, 1, 1, 2])):
            fwds.append(r.choice([[n] for n in NAMES[:5]] + [["pkg", "Baz"]]))
            if r.random() < 0.15:
                fwds.append(fwds[-1])
        if kind == "enum":
            fwds = []
        for q in fwds:
            toks += [T("parcelable")] + dotted(q) + [T(";")]
        # what type names may be written: simple names, partial and full qualification, near-misses
        refs = [[n] for n in NAMES] + [q for q in imports] + [q[-2:] for q in imports if len(q) > 2]
        refs += [[q[-1]] for q in imports] * 3 + [q for q in fwds]
        refs += [["pkg", "Foo"], ["other", "pkg", "Foo"], ["g", "Foo"], ["Zz"]]
        depth = r.choice([0, 1, 1, 2, 3, 4])
        if kind == "interface":
            ioneway = r.random() < 0.3
            if ioneway:
                toks.append(T("oneway"))
            toks += [T("interface"), T(name, "IDENT"), T("{")]
            for _ in range(r.choice([0, 1, 2, 3, 3, 4, 6, 9])):
                if r.random() < 0.2:
                    toks += [T("const")] + self.type_(min(depth, 1), refs) + [T("K%d" % r.randint(1, 3), "IDENT"), T("="), T(str(r.randint(0, 9))), T(";")]
                    continue
                if r.random() < 0.3:
                    toks.append(T("oneway"))
                ret = [T("void")] if r.random() < 0.5 else self.type_(depth, refs, allow_void=True)
                toks += ret + [T(r.choice(MNAMES), "IDENT"), T("(")]
                nargs = r.choice([0, 1, 1, 2, 3])
                for a in range(nargs):
                    if a:
                        toks.append(T(","))
                    d = r.choice(["", "", "in", "in", "out", "inout"])
                    if d:
                        toks.append(T(d))
                    toks += self.type_(depth, refs, allow_void=r.random() < 0.05)
                    if r.random() < 0.8:
                        toks.append(T("a%d" % a, "IDENT"))
                toks.append(T(")"))
                code = r.choice(CODES)
                if code:
                    toks += [T("="), T(code, "INTEGER")]
                toks.append(T(";"))
            toks.append(T("}"))
        elif kind == "parcelable":
            toks += [T("parcelable"), T(name, "IDENT"), T("{")]
            for k in range(r.choice([0, 1, 2, 3, 5])):
                if r.random() < 0.2:
                    toks += [T("const")] + self.type_(min(depth, 1), refs) + [T("K%d" % k, "IDENT"), T("="), T('"s"'), T(";")]
                else:
                    toks += self.type_(depth, refs) + [T("x%d" % k, "IDENT")]
                    if r.random() < 0.2:
                        toks += [T("="), T(str(k))]
                    toks.append(T(";"))
            toks.append(T("}"))
        else:
            toks += [T("enum"), T(name, "IDENT"), T("{")]
            n = r.choice([0, 1, 2, 4])
            for k in range(n):
                toks.append(T("E%d" % k, "IDENT"))
                if r.random() < 0.4:
                    toks += [T("="), T(str(k))]
                if k + 1 < n or r.random() < 0.3:
                    toks.append(T(","))
            toks.append(T("}"))
        return toks


def random_projects(rng, n, focus=""):
    g = ProjGen(rng, focus)
    return [project_scenario(g.project(), "rnd-project") for _ in range(n)]
