"""Scenario construction: TLC-emitted scenarios -> harness ops, and seeded random INPUT generators.

Generators produce inputs only (token sequences / texts / operation sequences). No expectation
about the library's behaviour is computed here."""
import random

import render as R

SIGNS = set(";,{}()[]<>=.-")
KW = {"package": "PACKAGE", "import": "IMPORT", "interface": "INTERFACE", "parcelable": "PARCELABLE",
      "enum": "ENUM", "oneway": "ONEWAY", "const": "CONST", "void": "VOID", "String": "STRING",
      "CharSequence": "CHAR_SEQUENCE", "List": "LIST", "Map": "MAP", "in": "DIRECTION", "out": "DIRECTION",
      "inout": "DIRECTION", "true": "BOOLEAN", "false": "BOOLEAN"}
PRIMS = ["byte", "short", "int", "long", "float", "double", "boolean", "char"]
for _p in PRIMS:
    KW[_p] = "PRIMITIVE"


def T(text, kind=None):
    if kind is None:
        if text in SIGNS:
            kind = text
        elif text in KW:
            kind = KW[text]
        elif text.startswith("@"):
            kind = "ANNOTATION"
        elif text.startswith('"'):
            kind = "QUOTED_STRING"
        elif text.isdigit():
            kind = "INTEGER"
        else:
            kind = "IDENT"
    return [kind, text]


def dotted(q):
    out = []
    for i, s in enumerate(q):
        if i:
            out.append(T("."))
        out.append(T(s, "IDENT"))
    return out


def project_scenario(s, src, extra_ops=(), parsed=False, pieces_rng=None):
    """s = {"files": [{"id","toks"}], "main"} as emitted by TLC (MC_Validate).
    With pieces_rng the files are given to the trace spec as pieces, so that the validated tree is also compared with
    the source (names, directions, codes, kinds as written)."""
    ops = [{"op": "new", "i": 1}]
    for f in s["files"]:
        if pieces_rng is not None:
            import docgen as D
            pcs = D.layout(f["toks"], pieces_rng, mode="spaces")
            ops.append({"op": "add", "i": 1, "id": f["id"], "text": D.text_of(pcs), "pieces": pcs, "parsed": True})
            continue
        pieces = R.default_layout(f["toks"])
        op = {"op": "add", "i": 1, "id": f["id"], "text": R.text_of(pieces)}
        if parsed:
            op["parsed"] = True
        ops.append(op)
    ops.append({"op": "validate", "i": 1})
    ops.extend(extra_ops)
    return {"sid": "", "src": src, "ops": ops, "main": s.get("main", "")}


# --------------------------------------------------------------------------------------
# random projects
# --------------------------------------------------------------------------------------
PKGS = [["p"], ["p", "q"], ["pkg"], ["other", "pkg"], ["g"], ["kg"], ["Com", "Acme"]]
NAMES = ["Foo", "XFoo", "FooX", "Bar", "Baz", "Qux", "Foo2", "IFoo", "IBinder", "ParcelFileDescriptor"]
BUILTINS = ["IBinder", "FileDescriptor", "ParcelFileDescriptor", "ParcelableHolder"]
MNAMES = ["f", "g", "h", "get", "set", "f2", "F", "Get", "K1"]
CODES = ["", "", "", "1", "2", "3", "01", "10", "010", "09", "0", "00", "65536", "65537", "2147483647", "2147483648", "16777216",
         "16777217", "4294967294", "4294967295", "0", "007", "4294967296", "18446744073709551616",
         "99999999999999999999999999999999"]


class ProjGen:
    def __init__(self, rng, focus):
        self.r = rng
        self.focus = focus

    def type_(self, depth, refs, allow_void=False):
        r = self.r
        x = r.random()
        if depth <= 0 or x < 0.45:
            y = r.random()
            if y < 0.25:
                return [T(r.choice(PRIMS))]
            if y < 0.35:
                return [T("String")]
            if y < 0.40:
                return [T("CharSequence")]
            if y < 0.45 and allow_void:
                return [T("void")]
            if y < 0.52:
                return [T(r.choice(BUILTINS), "IDENT")]
            if y < 0.56:
                return dotted(["android", "os", "ParcelFileDescriptor"])
            if y < 0.60:
                return [T(r.choice(["List", "Map"]))]
            return dotted(r.choice(refs))
        if x < 0.62:
            return self.type_(depth - 1, refs) + [T("["), T("]")]
        if x < 0.80:
            return [T("List"), T("<")] + self.type_(depth - 1, refs) + [T(">")]
        k = [T("String")] if r.random() < 0.7 else self.type_(depth - 1, refs)
        return [T("Map"), T("<")] + k + [T(",")] + self.type_(depth - 1, refs) + [T(">")]

    def project(self):
        r = self.r
        nfiles = r.randint(1, 6)
        items = []  # (pkg, name, kind)
        used = set()
        for _ in range(nfiles):
            pkg, name = r.choice(PKGS), r.choice(NAMES)
            if (tuple(pkg), name) in used and r.random() < 0.8:
                continue
            used.add((tuple(pkg), name))
            items.append((pkg, name, r.choice(["interface", "parcelable", "enum", "interface", "parcelable"])))
        files = []
        for k, (pkg, name, kind) in enumerate(items):
            files.append({"id": f"f{k}", "toks": self.file_(pkg, name, kind, items)})
        return {"files": files, "main": "f0"}

    def file_(self, pkg, name, kind, items):
        r = self.r
        toks = [T("package")] + dotted(pkg) + [T(";")]
        # candidate import targets: project items, near-misses, unknowns, built-ins
        cands = [p + [n] for (p, n, _) in items]
        cands += [p + [n.lower()] for (p, n, _) in items[:2]] + [[x.upper() if i == 0 else x for i, x in enumerate(p)] + [n] for (p, n, _) in items[:1]]
        cands += [["zz", "Unk"], ["pkg", "Nope"], ["android", "os", "IBinder"], ["android", "os", "ParcelFileDescriptor"],
                  ["android", "os", "ParcelableHolder"]]
        imports = []
        for _ in range(r.randint(17, 30) if r.random() < 0.03 else r.choice([0, 1, 1, 2, 3, 4])):
            imports.append(r.choice(cands))
            if r.random() < 0.15:
                imports.append(imports[-1])
        if kind == "enum":
            imports = imports[:1] if r.random() < 0.3 else []
        for q in imports:
            toks += [T("import")] + dotted(q) + [T(";")]
        fwds = []
        for _ in range(r.choice([0, 0, 0, 1, 1, 2])):
            fwds.append(r.choice([[n] for n in NAMES[:5]] + [["pkg", "Baz"]]))
            if r.random() < 0.15:
                fwds.append(fwds[-1])
        if kind == "enum":
            fwds = []
        for q in fwds:
            toks += [T("parcelable")] + dotted(q) + [T(";")]
        # what type names may be written: simple names, partial and full qualification, near-misses
        refs = [[n] for n in NAMES] + [q for q in imports] + [q[-2:] for q in imports if len(q) > 2]
        refs += [[q[-1]] for q in imports] * 3 + [q for q in fwds]
        refs += [["pkg", "Foo"], ["other", "pkg", "Foo"], ["g", "Foo"], ["Zz"]]
        depth = r.choice([0, 1, 1, 2, 3, 4])
        if kind == "interface":
            ioneway = r.random() < 0.3
            if ioneway:
                toks.append(T("oneway"))
            toks += [T("interface"), T(name, "IDENT"), T("{")]
            for _ in range(r.randint(17, 35) if r.random() < 0.03 else r.choice([0, 1, 2, 3, 3, 4, 6, 9])):
                if r.random() < 0.2:
                    toks += [T("const")] + self.type_(min(depth, 1), refs) + [T("K%d" % r.randint(1, 3), "IDENT"), T("="), T(str(r.randint(0, 9))), T(";")]
                    continue
                if r.random() < 0.3:
                    toks.append(T("oneway"))
                ret = [T("void")] if r.random() < 0.5 else self.type_(depth, refs, allow_void=True)
                toks += ret + [T(r.choice(MNAMES), "IDENT"), T("(")]
                nargs = r.randint(17, 20) if r.random() < 0.01 else r.choice([0, 1, 1, 2, 3])
                for a in range(nargs):
                    if a:
                        toks.append(T(","))
                    d = r.choice(["", "", "in", "in", "out", "inout"])
                    if d:
                        toks.append(T(d))
                    toks += self.type_(depth, refs, allow_void=r.random() < 0.05)
                    if r.random() < 0.8:
                        toks.append(T("a%d" % a, "IDENT"))
                toks.append(T(")"))
                code = r.choice(CODES)
                if code:
                    toks += [T("="), T(code, "INTEGER")]
                toks.append(T(";"))
            toks.append(T("}"))
        elif kind == "parcelable":
            toks += [T("parcelable"), T(name, "IDENT"), T("{")]
            for k in range(r.choice([0, 1, 2, 3, 5])):
                if r.random() < 0.2:
                    toks += [T("const")] + self.type_(min(depth, 1), refs) + [T("K%d" % k, "IDENT"), T("="), T('"s"'), T(";")]
                else:
                    toks += self.type_(depth, refs) + [T("x%d" % k, "IDENT")]
                    if r.random() < 0.2:
                        toks += [T("="), T(str(k))]
                    toks.append(T(";"))
            toks.append(T("}"))
        else:
            toks += [T("enum"), T(name, "IDENT"), T("{")]
            n = r.choice([0, 1, 2, 4])
            for k in range(n):
                toks.append(T("E%d" % k, "IDENT"))
                if r.random() < 0.4:
                    toks += [T("="), T(str(k))]
                if k + 1 < n or r.random() < 0.3:
                    toks.append(T(","))
            toks.append(T("}"))
        return toks


def random_projects(rng, n, focus=""):
    g = ProjGen(rng, focus)
    return [project_scenario(g.project(), "rnd-project", pieces_rng=rng) for _ in range(n)]


# --------------------------------------------------------------------------------------
# histories (C12 / C13): TLC emits {"start": {id: content}, "h": [{"op": {...}, "after": {id: content}}]}
# --------------------------------------------------------------------------------------
CONTENT_TEXT = {
    "itf": "package p;\nimport p.B;\ninterface A {\n  void f(in B b);\n}\n",
    "par": "package p;\nparcelable B {\n  int x;\n}\n",
    "enu": "package p;\nenum B { X, Y }\n",
    "bad": "package p;\ninterface { oops\n",
    "itfA1": "package p;\nimport p.B;\nimport q.C;\ninterface A {\n  void f(in B b, C c);\n}\n",
    "itfA2": "package p;\nimport p.B;\nimport q.C;\ninterface A {\n  B g();\n  void h(in C c, in B[] bs);\n}\n",
    "parB1": "package p;\nparcelable B {\n  int x;\n}\n",
    "parB2": "package p;\n/** other body */\nparcelable B {\n  String s;\n  long y;\n}\n",
    "enuB": "package p;\nenum B { X, Y }\n",
    "itfC": "package q;\nimport p.B;\ninterface C {\n  void k(in B b);\n}\n",
    "parU": "package z;\nparcelable U {\n  int u;\n}\n",
}


def _dict(x):
    return x if isinstance(x, dict) else {}


def _fresh(ops, state, inst=2, detail="digest"):
    ops.append({"op": "new", "i": inst})
    for id_ in sorted(state):
        ops.append({"op": "add", "i": inst, "id": id_, "text": CONTENT_TEXT[state[id_]]})
    ops.append({"op": "validate", "i": inst, "detail": detail})


def _apply(ops, op, inst=1):
    k = op["k"]
    if k == "add":
        ops.append({"op": "add", "i": inst, "id": op["id"], "text": CONTENT_TEXT[op["c"]]})
    elif k == "addfile":
        ops.append({"op": "addfile", "i": inst, "path": op["id"], "mode": "ok", "text": CONTENT_TEXT[op["c"]]})
    elif k in ("missing", "badutf8"):
        ops.append({"op": "addfile", "i": inst, "path": op["id"], "mode": k, "text": "package junk;"})
    elif k == "remove":
        ops.append({"op": "remove", "i": inst, "id": op["id"]})
    elif k == "validate":
        ops.append({"op": "validate", "i": inst, "detail": "digest"})


def hist_scenario(s, src, entry="direct", full=False):
    """Replays one TLC behaviour; after EVERY step the live parser and a fresh parser loaded from the
    abstract state TLC attached to that step are both validated (the trace spec compares them)."""
    start = _dict(s["start"])
    ops = [{"op": "new", "i": 1}]
    if entry == "direct":
        for id_ in sorted(start):
            ops.append({"op": "add", "i": 1, "id": id_, "text": CONTENT_TEXT[start[id_]]})
    else:
        # a longer way into the same abstract state: wrong contents first, a replace, a
        # remove-and-re-add, a file load, failed loads and validations in between
        others = ["par", "bad", "itf", "enu"]
        for n, id_ in enumerate(sorted(start, reverse=True)):
            ops.append({"op": "add", "i": 1, "id": id_, "text": CONTENT_TEXT[others[n % 4]]})
            ops.append({"op": "validate", "i": 1, "detail": "digest"})
        ops.append({"op": "add", "i": 1, "id": "zz", "text": CONTENT_TEXT["itf"]})
        for n, id_ in enumerate(sorted(start)):
            if n == 0:
                ops.append({"op": "remove", "i": 1, "id": id_})
                ops.append({"op": "addfile", "i": 1, "path": id_, "mode": "badutf8", "text": "package junk;"})
                ops.append({"op": "add", "i": 1, "id": id_, "text": CONTENT_TEXT[start[id_]]})
            elif n == 1:
                ops.append({"op": "addfile", "i": 1, "path": id_, "mode": "ok", "text": CONTENT_TEXT[start[id_]]})
            else:
                ops.append({"op": "add", "i": 1, "id": id_, "text": CONTENT_TEXT[start[id_]]})
        ops.append({"op": "remove", "i": 1, "id": "zz"})
        ops.append({"op": "remove", "i": 1, "id": "never-added"})
        ops.append({"op": "addfile", "i": 1, "path": "missing-file", "mode": "missing", "text": ""})
    ops.append({"op": "validate", "i": 1, "detail": "digest"})
    _fresh(ops, start)
    steps = s["h"]
    for n, st in enumerate(steps):
        _apply(ops, st["op"])
        ops.append({"op": "validate", "i": 1, "detail": "full" if full or n + 1 == len(steps) else "digest"})
        _fresh(ops, _dict(st["after"]))
    return {"sid": "", "src": src, "ops": ops}


def trans_scenario(s, src):
    """One transition (from, op, to) of the locality model, observed in full before and after."""
    start = _dict(s["start"])
    ops = [{"op": "new", "i": 1}]
    for id_ in sorted(start):
        ops.append({"op": "add", "i": 1, "id": id_, "text": CONTENT_TEXT[start[id_]]})
    ops.append({"op": "validate", "i": 1})
    for st in s["h"]:
        _apply(ops, st["op"])
        ops.append({"op": "validate", "i": 1})
    return {"sid": "", "src": src, "ops": ops}


def random_histories(rng, n, maxlen=40, fresh_every=4):
    """Random operation sequences over random projects; the driver keeps the id -> text map only to be
    able to load a fresh parser with the same surviving contents (an input, not an expectation)."""
    out = []
    g = ProjGen(rng, "C12")
    for _ in range(n):
        pool = []
        for _k in range(2):
            pr = g.project()
            pool += [R.text_of(R.default_layout(f["toks"])) for f in pr["files"]]
        pool += ["", "package p; interface {", "garbage é中", "package p; parcelable B { int x; }"]
        ids = ["a", "b", "c", "d", "e"][:rng.randint(2, 5)]
        ops = [{"op": "new", "i": 1}]
        state = {}
        for step in range(rng.randint(3, maxlen)):
            x = rng.random()
            id_ = rng.choice(ids)
            if x < 0.45:
                t = rng.choice(pool)
                ops.append({"op": "add", "i": 1, "id": id_, "text": t})
                state[id_] = t
            elif x < 0.55:
                t = rng.choice(pool)
                ops.append({"op": "addfile", "i": 1, "path": id_, "mode": "ok", "text": t})
                state[id_] = t
            elif x < 0.65:
                ops.append({"op": "addfile", "i": 1, "path": id_, "mode": rng.choice(["missing", "badutf8"]), "text": rng.choice(pool)})
            elif x < 0.85:
                ops.append({"op": "remove", "i": 1, "id": rng.choice(ids + ["ghost"])})
                state.pop(ops[-1]["id"], None)
            else:
                ops.append({"op": "validate", "i": 1, "detail": "digest"})
            if step % fresh_every == fresh_every - 1:
                ops.append({"op": "validate", "i": 1, "detail": "digest"})
                ops.append({"op": "new", "i": 2})
                for k in sorted(state, reverse=rng.random() < 0.5):
                    ops.append({"op": "add", "i": 2, "id": k, "text": state[k]})
                ops.append({"op": "validate", "i": 2, "detail": "digest"})
        ops.append({"op": "validate", "i": 1})
        ops.append({"op": "new", "i": 2})
        for k in sorted(state):
            ops.append({"op": "add", "i": 2, "id": k, "text": state[k]})
        ops.append({"op": "validate", "i": 2, "detail": "digest"})
        out.append({"sid": "", "src": "rnd-history", "ops": ops})
    return out


def random_perturbations(rng, n):
    """Projects observed before and after a change to ANOTHER file (body rewrite keeping package, name and
    kind; unrelated file added / removed; kind change / removal of an imported file as the control)."""
    out = []
    g = ProjGen(rng, "C13")
    for _ in range(n):
        pr = g.project()
        files = {f["id"]: f["toks"] for f in pr["files"]}
        ops = [{"op": "new", "i": 1}]
        for id_, toks in files.items():
            ops.append({"op": "add", "i": 1, "id": id_, "text": R.text_of(R.default_layout(toks))})
        ops.append({"op": "validate", "i": 1})
        for _k in range(rng.randint(1, 4)):
            x = rng.random()
            if x < 0.35:
                pk = "un.related%d" % rng.randint(0, 3)
                if rng.random() < 0.4 and pr["files"]:
                    # an unrelated item in the SAME package as some file of the project
                    tk = rng.choice(pr["files"])["toks"]
                    semi = next((i for i, t in enumerate(tk) if t[1] == ";"), 2)
                    pk = "".join(t[1] for t in tk[1:semi])
                ops.append({"op": "add", "i": 1, "id": rng.choice(["extra%d" % rng.randint(0, 2), "0first", "zzz-last"]),
                            "text": "package %s;\nparcelable Unrelated%d { int u; }\n" % (pk, rng.randint(0, 3))})
            elif x < 0.55 and len(files) > 1:
                ops.append({"op": "remove", "i": 1, "id": rng.choice(list(files))})
            elif x < 0.65:
                ops.append({"op": "remove", "i": 1, "id": rng.choice(["extra%d" % rng.randint(0, 2), "0first", "zzz-last"])})
            elif x < 0.80:
                # rewrite the IMPORTS of some file (an import added right after the package statement, or one dropped),
                # keeping its package, name and kind: nothing changes for any other file
                id_ = rng.choice(list(files))
                toks = files[id_]
                try:
                    semi = next(i for i, t in enumerate(toks) if t[1] == ";")
                except StopIteration:
                    continue
                if any(t[1] == "enum" for t in toks):
                    continue
                imp_at = [i for i, t in enumerate(toks) if t[1] == "import"]
                if imp_at and rng.random() < 0.4:
                    a0 = rng.choice(imp_at)
                    b0 = next(i for i in range(a0, len(toks)) if toks[i][1] == ";")
                    files[id_] = toks[:a0] + toks[b0 + 1:]
                else:
                    q_ = rng.choice([["pkg", "Foo"], ["other", "pkg", "Foo"], ["p", "Bar"], ["zz", "Unk"], ["g", "Foo"], ["kg", "Foo"]])
                    files[id_] = toks[:semi + 1] + [T("import")] + dotted(q_) + [T(";")] + toks[semi + 1:]
                ops.append({"op": "add", "i": 1, "id": id_, "text": R.text_of(R.default_layout(files[id_]))})
            else:
                # rewrite the body of some file keeping its header: regenerate members with the same name/kind
                id_ = rng.choice(list(files))
                toks = files[id_]
                try:
                    brace = next(i for i, t in enumerate(toks) if t[1] == "{")
                except StopIteration:
                    continue
                kind = next(t[1] for t in toks[:brace] if t[1] in ("interface", "parcelable", "enum"))
                body = {"interface": [T("void"), T("np%d" % rng.randint(0, 9), "IDENT"), T("("), T(")"), T(";")],
                        "parcelable": [T("long"), T("nf%d" % rng.randint(0, 9), "IDENT"), T(";")],
                        "enum": [T("N%d" % rng.randint(0, 9), "IDENT")]}[kind]
                files[id_] = toks[:brace + 1] + body + [T("}")]
                ops.append({"op": "add", "i": 1, "id": id_, "text": R.text_of(R.default_layout(files[id_]))})
            ops.append({"op": "validate", "i": 1})
        out.append({"sid": "", "src": "rnd-perturb", "ops": ops})
    return out


# --------------------------------------------------------------------------------------
# determinism (C11): same (id, content) pairs through repeated calls, new instances, other insertion
# orders, another thread and further processes
# --------------------------------------------------------------------------------------
def determinism_scenario(files, src, rng, layout="default", procs=2):
    texts = []
    for f in files:
        if "text" in f:
            texts.append((f["id"], f["text"]))
        else:
            pieces = R.oneline_layout(f["toks"]) if layout == "oneline" else R.default_layout(f["toks"])
            texts.append((f["id"], R.text_of(pieces)))
    ops = [{"op": "new", "i": 1}]
    for id_, t in texts:
        ops.append({"op": "add", "i": 1, "id": id_, "text": t})
    ops.append({"op": "validate", "i": 1})
    for _ in range(6):
        ops.append({"op": "validate", "i": 1, "detail": "digest"})
    ops.append({"op": "new", "i": 2})
    for id_, t in reversed(texts):
        ops.append({"op": "add", "i": 2, "id": id_, "text": t})
    ops.append({"op": "validate", "i": 2, "detail": "digest"})
    ops.append({"op": "validate", "i": 2, "detail": "digest", "thread": True})
    ops.append({"op": "validate", "i": 1, "detail": "digest", "thread": "same-object"})
    for inst in (3, 4):
        sh = list(texts)
        rng.shuffle(sh)
        ops.append({"op": "new", "i": inst})
        for id_, t in sh:
            ops.append({"op": "add", "i": inst, "id": id_, "text": t})
        ops.append({"op": "validate", "i": inst, "detail": "digest", "thread": inst == 4})
    return {"sid": "", "src": src, "ops": ops, "procs": procs}


# --------------------------------------------------------------------------------------
# soups (C01): arbitrary UTF-8 texts
# --------------------------------------------------------------------------------------
HAZARD = ["\u00e9", "\u4e2d", "\U0001F600", "\u0301", "\u00a0", "\u3000", "\u2028", "\u0085", "\r", "\r\n", "\t", "\"", "/", "*",
          "\u200b", "\u0663", "\ufeff", "\x0b", "\x00"]
FRAGS = ["package", "import", "interface", "parcelable", "enum", "oneway", "const", "void", "String", "List", "Map",
         "in", "out", "inout", "int", "byte", "true", "false", "CharSequence", "a", "Foo", "p.q", "x1", "_", "@A", "@B(a=1)",
         ";", ",", "{", "}", "(", ")", "[", "]", "<", ">", "=", ".", "-", "1", "99999999999", "18446744073709551616",
         "= 340282366920938463463374607431768211456;", "\u0663", "x\u0663", "1.5f", "-.5", "\"s\"", "\"C:\\\"", "\"",
         "/*", "*/", "/**", "//", "/** d */", "/* c */", "// c\n", "class", "for", "new", "= 9999999999;", "= 9999999999;"]


def soup_text(rng, kind, base_docs):
    if kind == "char":
        n = rng.choice([0, 1, 2, 5, 20, 80, 300])
        alpha = HAZARD + list("abz_09 \n;{}()<>[]=.,-@\"/*") + ["package ", "interface "]
        return "".join(rng.choice(alpha) for _ in range(n))
    if kind == "token":
        n = rng.choice([1, 3, 8, 20, 60, 200])
        seps = [" ", "", "\n", "\t", "\r\n", " /* c */ ", "//x\n", "\u00a0", "\u3000"]
        return "".join(rng.choice(FRAGS) + rng.choice(seps) for _ in range(n))
    if kind == "mutate":
        t = rng.choice(base_docs)
        for _ in range(rng.randint(1, 4)):
            if not t:
                break
            pos = rng.randint(0, len(t))
            x = rng.random()
            if x < 0.4:
                t = t[:pos] + rng.choice(HAZARD + FRAGS) + t[pos:]
            elif x < 0.7:
                t = t[:pos] + t[pos + rng.randint(1, 6):]
            else:
                t = t[:pos] + rng.choice(HAZARD + FRAGS) + t[pos + 1:]
        return t
    if kind == "longtok":
        t = rng.choice(base_docs)
        multi = ["\u00e9", "\u4e2d", "\U0001F600", "\u00fc"]
        n = rng.randint(20, 90)
        body = "".join(rng.choice(multi) if rng.random() < 0.4 else rng.choice("abcxyz _-") for _ in range(n))
        tok = rng.choice(['"' + body + '"', "id_" + "".join(c for c in body if c.isascii() and c.isalnum()) * 2,
                          "@" + "A" * n, "9" * n, '"' + "x" * rng.randint(35, 45) + rng.choice(multi) * 3 + '"',
                          "/* " + body + " */", "// " + body + "\n"])
        cuts = [i for i in range(len(t) + 1) if i == 0 or i == len(t) or not (t[i - 1].isalnum() and t[i].isalnum())]
        c = rng.choice(cuts)
        return t[:c] + " " + tok + " " + t[c:]
    if kind == "nest":
        d = rng.choice([1, 5, 17, 40, 64])
        shape = rng.choice(["list", "map", "array", "mixed"])
        ty = "int"
        for k in range(d):
            s = shape if shape != "mixed" else rng.choice(["list", "map", "array"])
            ty = {"list": f"List<{ty}>", "map": f"Map<String,{ty}>", "array": f"{ty}[]"}[s]
        return f"package p; parcelable N {{ {ty} deep; }}"
    if kind == "big":
        target = rng.choice([4096, 20000, 65536])
        parts = ["package p;\ninterface Big {\n"]
        size, k = len(parts[0]), 0
        while size < target - 80:
            m = "  /** doc %d é */ void m%d(in int a, out int[] b, inout List<String> c);\n" % (k, k)
            parts.append(m)
            size += len(m.encode())
            k += 1
        parts.append("}\n")
        return "".join(parts)
    return ""


def soup_scenarios(rng, n, base_docs):
    out = []
    kinds = ["char"] * 4 + ["token"] * 4 + ["mutate"] * 8 + ["longtok"] * 6 + ["nest"] + ["big"]
    for k in range(n):
        nfiles = rng.choice([1, 1, 1, 2, 3, 6])
        ops = [{"op": "new", "i": 1}]
        for f in range(nfiles):
            kind = rng.choice(kinds)
            if kind == "big" and k % 40:
                kind = "mutate"
            ops.append({"op": "add", "i": 1, "id": f"s{f}", "text": soup_text(rng, kind, base_docs)})
        ops.append({"op": "validate", "i": 1, "detail": "digest"})
        out.append({"sid": "", "src": "soup", "ops": ops})
    return out


def injection_scenarios(base_docs, atoms):
    """Every hazard atom injected at every character gap adjacent to a token / comment boundary of the base documents."""
    out = []
    for d, t in enumerate(base_docs):
        cuts = [i for i in range(len(t) + 1)
                if i == 0 or i == len(t) or not (t[i - 1].isalnum() and t[i].isalnum())]
        for atom in atoms:
            ops = [{"op": "new", "i": 1}]
            for n, c in enumerate(cuts):
                ops.append({"op": "add", "i": 1, "id": "x", "text": t[:c] + atom + t[c:]})
                ops.append({"op": "validate", "i": 1, "detail": "digest"})
            out.append({"sid": "", "src": "inject", "ops": ops})
    return out


DOC_FRAME_1 = '''// header
package com.ex.app;
import com.ex.app.Data;
import android.os.IBinder;
parcelable Fwd;
/**
 * Service doc
 * @see other
 */
@VintfStability @Backing(type="int", n=3)
oneway interface IService {
    /** Method doc */
    @nullable void send(in @utf8InCpp String s, out int[] arr, inout List<Data> l, in Map<String,IBinder> m, int) = 10;
    oneway void ping(); // trailing
    /* block */ const int VERSION = 3;
    const String NAME = "na/*me";
    Data[] get(in Fwd f, in android.os.ParcelFileDescriptor fd) = 9999999999;
}
'''
DOC_FRAME_2 = '''package p;
/** Parcel doc */
parcelable P {
    /** field doc */ int a = 1;
    @A String s = "x";
    float f = -1.5f;
    int[] arr = {1, 2, 3};
    const int C = A.B;
    Map m;
    List<String> l = {};
}
'''
DOC_FRAME_3 = '''package p;
/** E doc */ @Backing(type="byte") enum E {
    /** first */ A = 1,
    B,
    @X C = "c",
}
'''


# --------------------------------------------------------------------------------------
# symbol queries (C15 / C16 / C17): inputs only - filters, predicate descriptors, positions
# --------------------------------------------------------------------------------------
CLASSES = ["pkg", "imp", "item", "method", "arg", "const", "field", "elem", "type"]


def names_in(toks):
    """Candidate names for 'name equals N' predicates: identifiers and dotted names written in the document."""
    out, cur = [], []
    for k, t in toks:
        if k in ("IDENT", "LIST", "MAP", "STRING", "PRIMITIVE", "VOID", "CHAR_SEQUENCE"):
            if cur and cur[-1] == ".":
                cur.append(t)
            else:
                if cur:
                    out.append("".join(cur))
                cur = [t]
            out.append(t)
        elif k == "." and cur:
            cur.append(".")
        else:
            if cur:
                out.append("".join(cur))
            cur = []
    if cur:
        out.append("".join(cur))
    out += ["Array", "nope"]
    seen, res = set(), []
    for n in out:
        if n not in seen and not n.endswith("."):
            seen.add(n)
            res.append(n)
    return res


def query_ops(fid, text, toks, what=("walk", "filter", "find", "lookup", "walkers", "key"), max_nth=60, stage="validated"):
    ops = []
    base = {"i": 1, "id": fid, "stage": stage}
    for filt in ("all", "elems", "items"):
        if "walk" in what:
            ops.append(dict(base, op="walk", filter=filt))
        preds = []
        if "filter" in what or "find" in what:
            nmax = {"all": max_nth, "elems": 8, "items": 3}[filt]
            preds += [{"kind": "nth", "k": k} for k in range(1, nmax + 1)]
            preds += [{"kind": "class", "c": c} for c in CLASSES]
            preds += [{"kind": "name", "n": n} for n in names_in(toks)]
            preds += [{"kind": "all"}, {"kind": "none"}]
        if "find" in what and preds:
            ops.append(dict(base, op="finds", filter=filt, preds=preds))
        if "filter" in what and preds:
            ops.append(dict(base, op="filters", filter=filt, preds=preds))
        if "lookup" in what:
            pos = []
            lines = text.split("\n")
            for ln, line in enumerate(lines, 1):
                for col in range(1, len(line) + 3):
                    pos.append([ln, col])
            pos += [[len(lines) + 1, 1], [0, 0], [1, 0]]
            ops.append(dict(base, op="lookups", filter=filt, positions=pos))
    if "walkers" in what:
        ops += [dict(base, op="walktypes"), dict(base, op="walkmethods"), dict(base, op="walkargs")]
    if "key" in what:
        ops.append(dict(base, op="key"))
    return ops


def symbol_scenario(s, src, what, layout="default", rng=None):
    import docgen as D
    ops = [{"op": "new", "i": 1}]
    texts = {}
    for f in s["files"]:
        if layout == "default":
            texts[f["id"]] = R.text_of(R.default_layout(f["toks"]))
        else:
            # line breaks, comments and multi-byte white space between ANY two tokens (also inside dotted names)
            pcs = D.layout(f["toks"], rng, mode="mixed", unicode_ws=True)
            texts[f["id"]] = D.text_of(pcs)
            ops.append({"op": "add", "i": 1, "id": f["id"], "text": texts[f["id"]], "pieces": pcs})
            continue
        ops.append({"op": "add", "i": 1, "id": f["id"], "text": texts[f["id"]]})
    ops.append({"op": "validate", "i": 1})
    for f in s["files"]:
        if f["id"] in s.get("query", [s.get("main", "a")]):
            ops += query_ops(f["id"], texts[f["id"]], f["toks"], what)
    return {"sid": "", "src": src, "ops": ops}
