import sys, json, random, collections
sys.path.insert(0,'lib')
import common as C, plans, docgen as D
C.build_harness()
rng=random.Random(int(sys.argv[1]) if len(sys.argv)>1 else 5)
n=int(sys.argv[2]) if len(sys.argv)>2 else 200
prop=sys.argv[3] if len(sys.argv)>3 else 'C04'
docs=float(sys.argv[4]) if len(sys.argv)>4 else 0.1
g=D.RichGen(rng)
scs=[]
for k in range(n):
    toks=g.document()
    if len(sys.argv)>5: toks=plans.mutate_tokens(toks,rng,rng.randint(1,3))
    sc=plans.piece_scenario([("a", D.layout(toks, rng, mode="mixed", wild_comments=(docs<0.3), docs=docs, unicode_ws=(docs<0.3)))], "rich", validate=False)
    sc["sid"]=f"s{k}"
    scs.append(sc)
w=C.fresh_workdir('dbg')
evs=C.run_harness(scs,w)
fails,st=C.validate_trace(evs,w)
print(collections.Counter((f['prop'],f['why']) for f in fails))
bys={sc['sid']:sc for sc in scs}
shown=0
for f in fails:
    if f['prop']==prop and shown<4:
        shown+=1
        sc=bys[f['sid']]
        text=sc['ops'][1]['text']
        print('=====',f['why']); print(repr(text[:900]))
        e=[e for e in evs if e['sid']==f['sid'] and e['ev']=='add'][0]
        b=text.encode()
        for n_ in e['pobs']['nodes']:
            print('/'.join(n_['p']),n_['c'],repr(b[n_['sym'][0]:n_['sym'][1]].decode()) if n_['sym'] else None,'|',repr(b[n_['full'][0]:n_['full'][1]].decode())[:80], n_['full'], 'doc=',n_['doc'])
        for d in e['pobs']['diags']:
            print('  diag',d['sev'],d['tag'],d['r'],repr(b[d['r'][0]:d['r'][1]].decode()),d['msg'][:100].replace('\n',' | '), 'exp=',None)
        print('  expected', e.get('expected'))
