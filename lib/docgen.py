"""Input generators for documents as PIECES: rich well-formed token sequences, layouts (trivia between
tokens), doc comments with a structured body. Inputs only - no expectation is computed here."""
import random

import render as R
from families import T, dotted, PRIMS, KW, SIGNS

REV_ATOMS = {v: k for k, v in R.ATOMS.items()}


def atoms_of(text):
    out = []
    for c in text:
        if c in REV_ATOMS and not (32 < ord(c) < 127):
            out.append(REV_ATOMS[c])
        elif 32 <= ord(c) < 127:
            out.append(c)
        else:
            raise ValueError(f"character {c!r} has no atom")
    return out


def plain(text):
    return all(32 <= ord(c) < 127 for c in text)


def piece(kind, text, body=None):
    """TLC-side representation: [k, t] | [k, "", atoms] | ["DOC", "", atoms, body]"""
    if body is not None:
        return [kind, "", atoms_of(text), body]
    if plain(text):
        return [kind, text]
    return [kind, "", atoms_of(text)]


def piece_text(pc):
    if len(pc) >= 3 and pc[2]:
        return "".join(R.ATOMS[x] if len(x) > 1 else x for x in pc[2])
    return pc[1]


def text_of(pieces):
    return "".join(piece_text(p) for p in pieces)


WORDCH = set("abcdefghijklmnopqrstuvwxyzABCDEFGHIJKLMNOPQRSTUVWXYZ0123456789_")


def need_sep(a, b):
    """conservative: could the two token texts fuse or re-split if glued together?"""
    if not a or not b:
        return False
    x, y = a[-1], b[0]
    if x in WORDCH and (y in WORDCH or y == "@"):
        return True
    if x in ".-+" and (y.isdigit() or y == "."):
        return True
    if x.isdigit() and y == ".":
        return True
    if x == "/" or y == "/" or x == "*" or y == "*":
        return True
    return False


# ------------------------------------------------------------------------------------------
# rich well-formed documents (token level): every member / type / value / annotation form
# ------------------------------------------------------------------------------------------
NEAR = ["inout2", "Listing", "int_", "_", "voidx", "Stringy", "oneway_", "In", "Out", "interfaces", "constant", "trueish",
        "Foo", "Bar", "x", "y1", "a_b", "CharSequence2", "Mapper", "imports", "enum_", "parcelableX", "floaty", "doubles"]
VALUES = [["1"], ["0"], ["42"], ["007"], ["0010"], ["000"], ["09"], ["-.5f", "FLOAT"], ["1f", "FLOAT"], ["+3", "FLOAT"], ["-7", "FLOAT"], ["1.5", "FLOAT"],
          ['"s"'], ['""'], ['"a b/*c*/"'], ['"C:\\"'], ['"a\\nb"'], ['"// no comment"'], ["true"], ["false"]]
ANN_NAMES = ["@A", "@nullable", "@utf8InCpp", "@VintfStability", "@Backing", "@B2"]


def tokv(v):
    return T(v[0], v[1]) if len(v) > 1 else T(v[0])


class RichGen:
    def __init__(self, rng, maxdepth=4):
        self.r = rng
        self.maxdepth = maxdepth

    def ident(self):
        return T(self.r.choice(NEAR), "IDENT")

    def qname(self, maxn=3):
        return dotted([self.r.choice(NEAR) for _ in range(self.r.randint(1, maxn))])

    def lit(self):
        return [tokv(self.r.choice(VALUES))]

    def value(self, depth=2):
        r = self.r
        x = r.random()
        if x < 0.6 or depth == 0:
            return self.lit()
        if x < 0.7:
            return [T("{"), T("}")]
        if x < 0.8:
            return [self.ident(), T("."), self.ident()]
        out = [T("{")]
        for _ in range(r.randint(1, 3)):
            out += self.value(depth - 1)
        for _ in range(r.randint(0, 2)):
            out += [T(",")] + self.value(depth - 1)
        if r.random() < 0.4:
            out.append(T(","))
        return out + [T("}")]

    def annotations(self, p=0.3):
        r = self.r
        out = []
        while r.random() < p:
            out.append(T(r.choice(ANN_NAMES), "ANNOTATION"))
            if r.random() < 0.5:
                out.append(T("("))
                keys = r.sample(["a", "b", "type", "n"], r.randint(0, 3))
                for i, k in enumerate(keys):
                    out.append(T(k, "IDENT"))
                    if r.random() < 0.7:
                        out += [T("=")] + self.lit()
                    if i + 1 < len(keys) or r.random() < 0.25:
                        out.append(T(","))
                out.append(T(")"))
        return out

    def type_(self, depth, allow_void=False):
        r = self.r
        x = r.random()
        if depth <= 0 or x < 0.4:
            y = r.random()
            if y < 0.3:
                return [T(r.choice(PRIMS))]
            if y < 0.4:
                return [T("String")]
            if y < 0.45:
                return [T("CharSequence")]
            if y < 0.5 and allow_void:
                return [T("void")]
            if y < 0.6:
                return [T(r.choice(["List", "Map"]))]
            return self.qname()
        if x < 0.6:
            if allow_void and self.r.random() < 0.1:
                return [T("void"), T("["), T("]")]
            return self.type_(depth - 1) + [T("["), T("]")]
        if x < 0.8:
            return [T("List"), T("<")] + self.type_(depth - 1) + [T(">")]
        return [T("Map"), T("<")] + self.type_(depth - 1) + [T(",")] + self.type_(depth - 1) + [T(">")]

    def document(self, kind=None, big=None):
        r = self.r
        kind = kind or r.choice(["interface", "interface", "parcelable", "enum"])
        # now and then a LARGE document: 17+ imports / members / arguments / elements (size thresholds, growth of
        # internal tables, N-th element effects)
        big = (r.random() < 0.04) if big is None else big
        many = (lambda small: r.randint(17, 22)) if big else (lambda small: r.choice(small))
        toks = [T("package")] + self.qname() + [T(";")]
        for _ in range(many([0, 0, 1, 2, 3])):
            toks += [T("import")] + dotted([r.choice(NEAR) for _ in range(r.randint(2, 4))]) + [T(";")]
        for _ in range(r.choice([0, 0, 0, 1, 2])):
            toks += self.annotations(0.2) + [T("parcelable")] + self.qname() + [T(";")]
        toks += self.annotations(0.3)
        d = r.choice([0, 1, 2, self.maxdepth])
        if kind == "interface":
            if r.random() < 0.3:
                toks.append(T("oneway"))
            toks += [T("interface"), self.ident(), T("{")]
            for _ in range(many([0, 1, 2, 3, 5])):
                toks += self.annotations(0.25)
                if r.random() < 0.25:
                    toks += [T("const")] + self.type_(min(d, 1)) + [self.ident(), T("=")] + self.value() + [T(";")]
                    continue
                if r.random() < 0.3:
                    toks.append(T("oneway"))
                toks += self.type_(d, allow_void=True) + [self.ident(), T("(")]
                n = r.randint(17, 19) if (big and r.random() < 0.15) else r.choice([0, 1, 2, 3])
                for a in range(n):
                    if r.random() < 0.6:
                        toks.append(T(r.choice(["in", "out", "inout"])))
                    toks += self.annotations(0.15) + self.type_(d)
                    if r.random() < 0.75:
                        toks.append(self.ident())
                    if a + 1 < n or r.random() < 0.15:
                        toks.append(T(","))
                toks.append(T(")"))
                if r.random() < 0.4:
                    toks += [T("="), T(r.choice(["0", "1", "7", "007", "010", "0017", "09", "0080", "00", "4294967295", "16777215", "16777217", "65536",
                                              "2147483648"]), "INTEGER")]
                toks.append(T(";"))
            toks.append(T("}"))
        elif kind == "parcelable":
            toks += [T("parcelable"), self.ident(), T("{")]
            for _ in range(many([0, 1, 2, 4])):
                toks += self.annotations(0.25)
                if r.random() < 0.25:
                    toks += [T("const")] + self.type_(min(d, 1)) + [self.ident(), T("=")] + self.value() + [T(";")]
                else:
                    toks += self.type_(d) + [self.ident()]
                    if r.random() < 0.4:
                        toks += [T("=")] + self.value()
                    toks.append(T(";"))
            toks.append(T("}"))
        else:
            toks += [T("enum"), self.ident(), T("{")]
            n = many([0, 1, 2, 4])
            for k in range(n):
                toks += self.annotations(0.2) + [self.ident()]
                if r.random() < 0.4:
                    toks += [T("=")] + self.lit()
                if k + 1 < n or r.random() < 0.4:
                    toks.append(T(","))
            toks.append(T("}"))
        return toks


# ------------------------------------------------------------------------------------------
# trivia
# ------------------------------------------------------------------------------------------
WS_SIMPLE = [" ", "  ", "\n", "\t", "\r\n", " \n  ", "\n\n"]
WS_UNICODE = ["\u00a0", "\u3000", "\u2028", "\u0085", "\u2002", "\x0b", "\x0c", "\r", " \u3000\n", "\u2029"]
COMMENT_WORDS = ["c", "note", "todo x", "String old(int a); gone", "was { x } before", "a;b", "} else {", "caf\u00e9", "\u4e2d\u4e2d", "\U0001F600 ok", "a = b;", "e\u0301\u0301 x"]
COMMENT_WORDS_WILD = ["/* not nested", "* star", "// slashes", "a / b * c", "\"quote", "@ann", "x *", "x **", "*** banner **",
                      "* x ***", "**"]


def trivia_piece(rng, unicode_ws=True, wild_comments=False):
    x = rng.random()
    if x < 0.55:
        pool = WS_SIMPLE + (WS_UNICODE if unicode_ws else [])
        return piece("WS", rng.choice(pool))
    words = COMMENT_WORDS + (COMMENT_WORDS_WILD if wild_comments else [])
    if x < 0.75:
        nl = rng.choice(["\n", "\r\n", "\n\n"])
        return piece("LCOM", "// " + rng.choice(words).replace("*/", "") + nl)
    if x < 0.95:
        w = rng.choice(words)
        if "*/" in w:
            w = "c"
        if w.endswith("*"):
            return piece("BCOM", "/* " + w + "/")            # closing run of several stars: /* x **/
        return piece("BCOM", "/* " + w + " */" if not w.startswith("/*") else "/* x " + w[2:] + " */")
    return piece("BCOM", "/**/")


DOC_WORDS = ["Returns", "the", "value", "caf\u00e9", "na\u00fcve", "\u4e2d\u4e2d", "\u30ab\u4e2d", "\U0001F600", "x1", "foo-bar", "a.b", "(ok)",
             "done.", "\u30ab", "e\u0301"]
TAGS = ["@param", "@return", "@see", "@deprecated"]


def doc_body(rng):
    paras = []
    for _ in range(rng.choice([0, 1, 1, 1, 2])):
        lines = []
        for _l in range(rng.choice([1, 1, 2])):
            lines.append([rng.choice(DOC_WORDS) for _w in range(rng.randint(1, 4))])
        paras.append(lines)
    tags = []
    for _ in range(rng.choice([0, 0, 1, 2])):
        tags.append([rng.choice(TAGS)] + [rng.choice(DOC_WORDS) for _w in range(rng.randint(0, 3))])
    if not paras and not tags and rng.random() < 0.7:
        paras = [[[rng.choice(DOC_WORDS)]]]
    return {"paras": paras, "tags": tags}      # may be empty: `/** */` documents with the empty text


def render_doc(body, rng, nl="\n", indent="  "):
    lines = []  # list of text lines; None = blank separator
    for pi, para in enumerate(body["paras"]):
        if pi:
            lines.append(None)
        for ln in para:
            lines.append(" ".join(ln))
    for tg in body["tags"]:
        lines.append(" ".join(tg))
    if not lines:
        return rng.choice(["/** */", "/**  */", "/**" + nl + indent + " */"])
    one = len(lines) == 1 and rng.random() < 0.5
    if one:
        return "/** " + lines[0] + " */"
    style = rng.choice(["star", "star", "compact"])
    out = "/**" + nl
    for ln in lines:
        if ln is None:
            out += indent + " *" + nl
        else:
            out += indent + " * " + ln + nl
    out += indent + " */"
    if style == "compact" and lines and lines[0] is not None:
        out = "/** " + lines[0] + nl + "".join((indent + " *" + nl) if ln is None else (indent + " * " + ln + nl) for ln in lines[1:]) + indent + " */"
    return out


def doc_piece(rng, nl="\n"):
    body = doc_body(rng)
    return piece("DOC", render_doc(body, rng, nl), body)


def layout(toks, rng, mode="mixed", docs=0.0, unicode_ws=True, wild_comments=False, nl=None):
    """Pieces for a token sequence: trivia in the gaps (none where the lexer needs no separator),
    doc comments in front of some tokens."""
    out = []
    n = len(toks)
    nl = nl or rng.choice(["\n", "\n", "\r\n"])
    far = rng.random() < 0.03
    if far:
        # lines and columns beyond 255 / 256: many leading line breaks, then a long run of blanks
        out.append(piece("WS", nl * rng.randint(250, 300) + " " * rng.randint(250, 300)))
    elif rng.random() < 0.5:
        out.append(trivia_piece(rng, unicode_ws, wild_comments))
    for i, (k, t) in enumerate(toks):
        if docs and rng.random() < docs and (i == 0 or toks[i - 1][1] in (";", "{", "}", ",", "(")):
            out.append(doc_piece(rng, nl))
            out.append(piece("WS", rng.choice([" ", nl, nl + "    ", "\t", nl + "\t", " \t "])))
            # ordinary comments between the doc comment and its construct (C18's alphabet: no '/' and no '*' inside)
            for _c in range(rng.choice([0, 0, 0, 1, 1, 2])):
                w = rng.choice([x for x in COMMENT_WORDS if "/" not in x and "*" not in x])
                out.append(piece("BCOM", "/* " + w + " */") if rng.random() < 0.5 else piece("LCOM", "// " + w + nl))
                out.append(piece("WS", rng.choice([" ", nl, "\t"])))
        out.append([k, t] if plain(t) else piece(k, t))
        if i + 1 == n:
            break
        nt = toks[i + 1][1]
        must = need_sep(t, nt)
        x = rng.random()
        if mode == "tight" and not must:
            continue
        if mode == "mixed" and not must and x < 0.35:
            continue
        if mode == "spaces" or (mode == "mixed" and x < 0.6):
            out.append(piece("WS", " " if t not in (";", "{", "}") else nl))
            continue
        cnt = rng.choice([1, 1, 2, 3])
        for _c in range(cnt):
            pc = trivia_piece(rng, unicode_ws, wild_comments)
            # never let two pieces form one cluster / one token: keep WS runs in one piece
            if out and out[-1][0] == "WS" and pc[0] == "WS":
                continue
            out.append(pc)
        # a block comment glued to the next token is fine; a line comment always ends with a newline
    if rng.random() < 0.5:
        pc = trivia_piece(rng, unicode_ws, wild_comments)
        if not (out and out[-1][0] == "WS" and pc[0] == "WS"):
            out.append(pc)
    # merge guard: a WS piece ending in CR must not be followed by a WS piece starting with LF (handled above),
    # and no piece may start with a combining mark (none of the generators produce that)
    return out
