"""Rendering of token sequences to text: concatenation of pieces (tokens + trivia).

A piece is {"k": kind, "t": text} (+ "a": atom names when the text is not plain ASCII).
The renderer decides nothing about meaning: it only glues pieces together.
"""
import random

ATOMS = {
    "LF": "\n", "CR": "\r", "TAB": "\t", "SP": " ", "VT": "\x0b", "FF": "\x0c",
    "NBSP": "\u00a0", "IDSP": "\u3000", "LSEP": "\u2028", "PSEP": "\u2029", "NEL": "\u0085",
    "ENSP": "\u2002", "EACUTE": "\u00e9", "CJK": "\u4e2d", "EMOJI": "\U0001F600", "COMB": "\u0301",
    "UUML": "\u00fc", "KANA": "\u30ab", "ARDIGIT": "\u0663", "FWDIGIT": "\uff13",
}
TRIVIA = ("WS", "LCOM", "BCOM", "DOC")


def piece_text(p):
    if p.get("a"):
        return "".join(ATOMS[x] if len(x) > 1 else x for x in p["a"])
    return p["t"]


def text_of(pieces):
    return "".join(piece_text(p) for p in pieces)


def tok(k, t):
    return {"k": k, "t": t}


def ws(t=" "):
    if all(32 <= ord(c) < 127 for c in t):
        return {"k": "WS", "t": t}
    names = {v: k for k, v in ATOMS.items()}
    return {"k": "WS", "t": "", "a": [names.get(c, c) for c in t]}


def default_layout(toks):
    """One space between tokens; a newline after ; { } - purely cosmetic."""
    out = []
    for i, (k, t) in enumerate(toks):
        out.append(tok(k, t))
        if i + 1 < len(toks):
            out.append(ws("\n") if t in (";", "{", "}") else ws(" "))
    return out


def pieces_from_toks(toks, layout="default", rng=None):
    if layout == "default":
        return default_layout(toks)
    raise ValueError(layout)


def oneline_layout(toks):
    out = []
    for i, (k, t) in enumerate(toks):
        out.append(tok(k, t))
        if i + 1 < len(toks):
            out.append(ws(" "))
    return out
