#!/usr/bin/env python3
"""Regenerates /verif/MANIFEST.json from the table below (run after adding a check)."""
import json, os, sys
sys.path.insert(0, os.path.dirname(os.path.abspath(__file__)))
V = os.path.dirname(os.path.dirname(os.path.abspath(__file__)))

TECH = "TLA+ specification checked with TLC; conformance by replaying TLC-enumerated scenarios into the library and validating the recorded traces against the specification with TLC (trace spec)"

CHECKS = {
 "C14": ("4 C14", "MC_Slots in 'recover' mode: TLC enumerates every garbage member up to length 2 (quick) / 3 (thorough) over the vocabulary without the item's terminators and braces, in 11 frames with well-formed siblings; the trace spec parses the document with and without the garbage member (AidlParse) and demands a tree, the siblings in order and unchanged (members salvaged from inside the garbage are allowed), at least one Error and every syntax Error inside the extent of the garbage member (AidlLayout offsets)."),
 "C02": ("4 C02", "AidlParse.ParseToks is the grammar as a deterministic tree builder over the NON-trivia pieces (layout invariance is a theorem of the specification); every Add event carries its document as pieces and the trace spec requires the parse-stage tree to mirror the specification's tree node by node (names, kinds, type structure, directions, optional names, oneway flags, transact codes, values, annotations), for TLC-enumerated family documents and rich generated documents under many layouts."),
 "C03": ("4 C03", "MC_Slots: TLC enumerates every token string up to length 2 (quick) / 3 (thorough) over 34 terminals + a 33-bit INTEGER in 16 syntactic slots and decides each with the specification's tree builder; the trace spec re-derives the verdict from the pieces and demands tree + no syntax diagnostic iff well-formed, at least one Error otherwise, no parse-stage diagnostic dropped by validation, no keyword / reserved word among the stored identifiers; plus token-mutated rich documents."),
 "C04": ("4 C04", "AidlLayout computes every position from the pieces (UTF-8 offsets, line, grapheme-cluster column) and the expected name / full ranges from the token indices of AidlParse; the trace spec checks exactness, the allowed start / end sets, nesting, sibling order and well-formedness of every range in trees, diagnostics and related infos, the one-token rule for syntax diagnostics and the first-offending-token rule, on well-formed and malformed inputs."),
 "C18": ("4 C18", "AidlLayout.DocFor (which doc-comment piece documents which construct) and DocText (normalisation of a structured body); documents with doc comments of all decorations, LF / CRLF, non-ASCII words, ordinary comments in between, docs at arbitrary gaps; the doc field of every documentable node is compared."),
 "C20": ("4 C20", "Error points are reached through MC_Slots (TLC-enumerated token strings per slot, decided by the specification's tree builder) and token-mutated documents; for every syntax diagnostic the expectation vector logged by the hook must be named exactly by the message (set equality over the 34-terminal vocabulary). The pinned tree violates this in one precisely described way, recorded in known_findings.json (C20-penultimate-dropped); any other discrepancy is a VIOLATION."),
 "C19": ("4 C19", "RoundTrip is an identity step of the specification (the thinnest use of the model, stated as such in DESIGN.md): the specification supplies the enumeration of the tree space (families dir / ow / sym / cont / res: every resolved kind, direction, oneway combination, nesting) and the requirement; the trace spec compares the field-by-field projection of the tree re-read from RON with the projection before, at parse stage and after validation, and Rust's == as logged."),
 "C15": ("4 C15", "AidlSymbols.Walk / FilterPaths / FindPath / WalkTypesPaths state the visiting order (array element before the array, any depth) and the filter / find semantics; WalkCoversTree (every node exactly once) is evaluated on every judged tree; TLC enumerates family 'sym'; the harness identifies every delivered reference by pointer identity and the trace spec compares sequences for the three filter levels and the predicates k-th / class / name."),
 "C16": ("4 C16", "AidlSymbols.LookupPath (first symbol in traversal order whose reported name range contains the position, inclusive at both ends) is compared with find_symbol_at_line_col at EVERY (line, column) of every rendered document of family 'sym' and of random projects, for the three filter levels."),
 "C17": ("4 C17", "AidlSymbols.QNameOf / PlainNameOf; family 'sym' covers every item kind x package depth 1-3 with a second file referencing the item in several positions; get_name / get_qualified_name of every walked symbol and Aidl::get_key are compared by the trace spec."),
 "C01": ("4 C01", "AidlStore.AddContent is enabled for every content and Validate returns one result per id (AidlProject.KeysExact, model-checked on MC_Store/MC_Hist); the trace spec has no action for a call that panics, aborts or hangs, so every such event is reported; seeded soups (characters, tokens, mutations, nesting to depth 64, 64 KiB documents, 1-6 files) and exhaustive single injections of a hazard alphabet at every token/comment/string boundary of frame documents are replayed."),
 "C11": ("4 C11", "The trace spec keeps memo[store] -> digest of the first validation (trees + diagnostics in order) and demands equality for every later validation of an equal (id, content) map: repeated calls, new instances, reversed / shuffled insertion orders, fresh threads and 2-3 separate OS processes; ascending (line, column) order is checked on every observation. TLC enumerates family 'order' (several diagnostics on one line, ambiguous imports, duplicate keys)."),
 "C12": ("4 C12", "AidlStore/AidlProject is the state machine; TLC enumerates MC_Hist (all histories of the stated length over 3 ids x 4 contents, from the empty parser and from every one of the 125 abstract states through two different entry histories) checking KeysExact / PureFunction / OnlyNamedSlotChanges, and attaches the abstract store after every step; the replay compares the live parser with a fresh parser loaded from that abstract store after every step (trace spec memo), add_file outcomes included."),
 "C13": ("4 C13", "AidlProject.Locality is model-checked; TLC enumerates every transition of the locality model (8 contents incl. body variants, kind changes, unrelated and malformed files) and the trace spec requires an equal result for a file whenever its content and the facts about its imports (key registered? which kind?) are equal, before/after each perturbation."),
 "C05": ("4 C05", "AidlValidate.AllowedRK / ExpC05 state the scoping rule; TLC enumerates MC_Validate family 'res' exhaustively within the bound and every recorded Validate event (also of random projects) is judged by the trace spec: resolved kind of every named type at any depth must be in the allowed set, and exactly one unknown-type Error per unresolved name; 'among the files currently in the parser' is exercised by every operation history of length 3 (thorough 4) over two ids (MC_Hist), validated in full after every step."),
 "C06": ("4 C06", "AidlValidate.ExpC06 states the import / forward-declaration diagnostics as a bag; family 'imp' (all import lists up to the bound x forward lists x usage) is enumerated by TLC, replayed, and the trace spec demands a perfect matching between the expected bag and the observed slice (ranges, severities, related ranges); whether an import / forward declaration is 'used' follows the scoping rule's own answer wherever it leaves no choice, not the classification the code reports."),
 "C07": ("4 C07", "AidlValidate.DirReq / ExpC07; family 'dir' is the complete 816-cell product (17 categories x 4 directions x method oneway x interface oneway x 3 positions), replayed and judged by the trace spec; random projects on top."),
 "C08": ("4 C08", "AidlValidate.ContainerItems / ExpC08 over all container nodes at any depth; family 'cont' enumerates constructor paths to depth 2 (quick) / 3 (thorough) x 16 leaves x 4 positions plus all leaf pairs in both map slots."),
 "C09": ("4 C09", "AidlValidate.ExpC09 is a single left-to-right definition; family 'meth' enumerates all method sequences up to length 3 (quick) / 4 (thorough) over 3 names x {no code, 3 codes}, with interleaved constants; related ranges are compared; every method's code must equal the code written in the source (32-bit edge values, zero padding)."),
 "C10": ("4 C10", "AidlValidate.OnewayFlagsOK / ExpC10; family 'ow' enumerates interface oneway x per-method oneway x return category (17) for up to 2 methods (3 in thorough over 4 categories)."),
}

PENDING = {}

def main():
    props = [json.loads(l)["id"] for l in open(os.path.join(V, "properties.jsonl"))]
    checks = []
    for pid in props:
        if pid not in CHECKS:
            continue
        ref, text = CHECKS[pid]
        checks.append({
            "property_id": pid,
            "quick_cmd": f"./check {pid} quick",
            "thorough_cmd": f"./check {pid} thorough",
            "evidence_file": f"/verif/evidence/{pid}.json",
            "replay_cmd_template": f"./check {pid} --replay {{path}}",
            "engine": "tlc-trace",
            "level_claimed": {"category": "model_checking", "text": text, "design_ref": f"DESIGN.md section {ref}"},
            "level_note": "Bounded: TLC explores the stated scenario space exhaustively and judges every recorded event; beyond the bound only seeded random traces speak. Trusted base: TLC 1.8.0 with the Json/IOUtils community modules, the renderer (concatenation of pieces), the hand-written projection of results in /verif/harness, the keyword table that tags diagnostics (unknown wording = wildcard).",
            "technique": TECH,
        })
    na = [{"property_id": p, "reason": PENDING.get(p, "check still under construction in this session (see DESIGN.md section 10); no claim is made yet")}
          for p in props if p not in CHECKS]
    man = {
        "version": 1,
        "setup_cmd": "./check setup",
        "hooks": {
            "guard": "verif-hooks",
            "enable": "cargo feature: the harness depends on aidl-parser = { path = \"/repo\", features = [\"verif-hooks\"] }",
            "baseline_off_cmd": "cd /repo && cargo test --workspace --no-fail-fast --offline",
            "source_commits": ["7e7e7a7", "0aff3c1"],
            "add_only": True,
        },
        "engines": [
            {"name": "tlc-trace", "path": "/verif/spec", "serves_properties": sorted(CHECKS), "kind_free_text": "TLA+ specification (AidlStore, AidlProject, AidlValidate, ...), bounded models MC_*.tla checked by TLC, trace specification TraceAidl.tla validating NDJSON traces recorded by /verif/harness from the real library; AidlProofs.tla (TLAPS, unbounded store-level theorems) is re-checked with tlapm by the thorough tier of C01, C12, C13"},
        ],
        "checks": checks,
        "notes": "All checks: exit 0 = held (KNOWN-FINDING lines for recorded defects), 1 = VIOLATION line + replay file, 2 = tool error. VERIF_SEED seeds every random driver.",
        "not_applicable": na,
    }
    with open(os.path.join(V, "MANIFEST.json"), "w") as f:
        json.dump(man, f, indent=1)
    print("MANIFEST.json written:", len(checks), "checks,", len(na), "not_applicable")

if __name__ == "__main__":
    main()
