#!/usr/bin/env python3
"""Automated mutation sweep (binding demonstration, DESIGN section 7).

Applies small syntactic mutations, one at a time, to the non-test part of the crate's sources in a scratch worktree
of /repo (never /repo itself); a mutant that still compiles and passes the crate's own test suite is handed to the
quick checks of the properties anchored in the mutated function (VERIF_REPO=<worktree>). Records which check caught
it; survivors are listed for inspection (equivalent mutant, or a gap).

usage: mutsweep.py <file under src/> [max_mutants] [start_index]
"""
import json, os, re, subprocess, sys, time, hashlib, shutil

V = os.path.dirname(os.path.dirname(os.path.abspath(__file__)))
WT = "/tmp/vsweep/wt-" + (os.path.basename(sys.argv[1]).replace(".", "_") if len(sys.argv) > 1 else "x")


def sh(cmd, cwd=None, timeout=3600):
    p = subprocess.run(cmd, shell=True, cwd=cwd, stdout=subprocess.PIPE, stderr=subprocess.STDOUT, text=True, timeout=timeout)
    return p.returncode, p.stdout


# which properties are anchored where (function name -> properties), per file
ANCHORS = {
    "src/validation.rs": [("fn validate", ["C11", "C03", "C10"]), ("fn set_up_oneway_interface", ["C10"]), ("fn resolve_types", ["C05", "C06"]),
                          ("fn resolve_type", ["C05", "C17"]), ("fn check_imports", ["C06"]), ("fn check_declared_parcelables", ["C06"]),
                          ("fn check_containers", ["C08"]), ("fn check_container", ["C08"]), ("fn check_methods", ["C09", "C10", "C07"]),
                          ("fn check_method_args", ["C07"]), ("fn check_method", ["C10", "C07"]),
                          ("fn get_requirement_for_arg_direction", ["C07"]), ("fn check_array_element", ["C08"]),
                          ("fn check_list_element", ["C08"]), ("fn check_map_key", ["C08"]), ("fn check_map_value", ["C08"])],
    "src/traverse.rs": [("fn walk_symbols", ["C15"]), ("fn filter_symbols", ["C15"]), ("fn find_symbol_at_line_col", ["C16"]),
                        ("fn find_symbol", ["C15", "C16"]), ("fn walk_symbols_with_control_flow", ["C15", "C16"]),
                        ("fn range_contains", ["C16"]), ("fn walk_types_mut", ["C05", "C08"]), ("fn walk_types", ["C15", "C08"]),
                        ("fn walk_methods", ["C15", "C09"]), ("fn walk_args", ["C15"])],
    "src/symbol.rs": [("fn get_name", ["C17"]), ("fn get_qualified_name", ["C17"]), ("fn get_range", ["C16"]), ("fn get_full_range", ["C15"]),
                      ("fn get_details", []), ("fn get_signature", [])],
    "src/javadoc.rs": [("fn get_javadoc", ["C18", "C01"]), ("fn find_content_string", ["C18", "C01"]), ("fn parse_javadoc", ["C18"])],
    "src/parser.rs": [("fn new", ["C12"]), ("fn add_content", ["C12", "C03", "C01"]), ("fn remove_content", ["C12", "C01"]),
                      ("fn validate", ["C12", "C11"]), ("fn collect_item_keys", ["C05", "C13", "C11"]), ("fn add_file", ["C12"])],
    "src/diagnostic.rs": [("fn from_error_recovery", ["C20", "C14", "C04"]), ("fn from_parse_error", ["C20", "C04", "C03"]),
                          ("fn expected_token_str", ["C20"])],
    "src/ast.rs": [("fn get_key", ["C17", "C05"]), ("fn new", ["C04"]), ("fn get_qualified_name", ["C05", "C06", "C17"]),
                   ("fn from_type_name", []), ("fn from_name", ["C05"]), ("fn from_qualified_name", ["C05", "C06"]),
                   ("fn get_name", ["C05"]), ("fn can_be_qualified", ["C05"]), ("fn simple_type", ["C04"]), ("fn array", ["C04", "C02"]),
                   ("fn list", ["C04", "C02"]), ("fn non_generic_list", ["C04"]), ("fn map", ["C04", "C02"]), ("fn non_generic_map", ["C04"]),
                   ("fn is_true", ["C19"]), ("fn default_true", ["C19"]), ("fn is_unspecified", ["C19"])],
}

OPS = [(r"==", "!="), (r"!=", "=="), (r"<=", "<"), (r">=", ">"), (r" < ", " <= "), (r" > ", " >= "),
       (r"&&", "||"), (r"\|\|", "&&"), (r"=> true", "=> false"), (r"=> false", "=> true"), (r"\btrue\b", "false"), (r"\bfalse\b", "true"),
       (r"\.is_some\(\)", ".is_none()"), (r"\.is_none\(\)", ".is_some()"), (r"\.is_empty\(\)", ".len() == 1"),
       (r"\+ 1\b", "+ 0"), (r"- 1\b", "- 0"), (r"- 3\b", "- 2"), (r"\bpos - ", "pos + 0 * "), (r"\breturn;", "{}"),
       (r"DiagnosticKind::Error", "DiagnosticKind::Warning"), (r"DiagnosticKind::Warning", "DiagnosticKind::Error"),
       (r"symbol_range", "full_range"), (r"\.start\b", ".end"), (r"ControlFlow::Break", "ControlFlow::Continue"),
       (r"Direction::In\(", "Direction::InOut("), (r"Direction::Out\(", "Direction::In("), (r"\.0\b", ".1"),
       (r"!type_", "type_"), (r"!resolved", "resolved"), (r"!defined", "defined"), (r"!matches!", "matches!"), (r"if !", "if "),
       (r"CanOnlyBeInOrUnspecified", "NoRequirement"), (r"DirectionRequired", "CanOnlyBeInOrUnspecified"),
       (r"CanOnlyBeInOrInOut", "CanOnlyBeInOrUnspecified"), (r"CannotBeAnArg", "NoRequirement"),
       (r"ResolvedItemKind::Parcelable", "ResolvedItemKind::Interface"), (r"ResolvedItemKind::Enum", "ResolvedItemKind::Parcelable"),
       (r"AndroidTypeKind::IBinder", "AndroidTypeKind::FileDescriptor"), (r'"\."', '""'), (r'"::"', '"."')]


def sites(path, text):
    lines = text.split("\n")
    end = next((i for i, l in enumerate(lines) if l.strip().startswith("#[cfg(test)]")), len(lines))
    anchors = ANCHORS.get(path, [])
    cur = []
    out = []
    for i in range(end):
        l = lines[i]
        for name, props in anchors:
            if re.search(re.escape(name) + r"\b", l) and "fn " in l:
                cur = props
        s = l.strip()
        if not s or s.startswith("//") or s.startswith("#[") or s.startswith("///") or "message" in s and "format!" in s:
            continue
        for pat, rep in OPS:
            for m in re.finditer(pat, l):
                # skip string literals / comments crudely
                pre = l[:m.start()]
                if pre.count('"') % 2 == 1 or "//" in pre:
                    continue
                out.append((i, m.start(), m.end(), rep, list(cur)))
    return out


def main():
    path = sys.argv[1]
    maxn = int(sys.argv[2]) if len(sys.argv) > 2 else 10 ** 9
    start = int(sys.argv[3]) if len(sys.argv) > 3 else 0
    os.makedirs("/tmp/vsweep", exist_ok=True)
    if not os.path.exists(WT):
        rc, o = sh(f"git -C /repo worktree add -q --detach {WT} HEAD")
        assert rc == 0, o
    sh("git checkout -q -- . && git clean -fdq src tests", cwd=WT)
    text = open(os.path.join(WT, path)).read()
    ss = sites(path, text)
    resfile = os.path.join(V, "work", "mutsweep-" + path.replace("/", "_") + ".jsonl")
    print(f"{len(ss)} mutation sites in {path}", flush=True)
    n = 0
    for idx, (li, a, b, rep, props) in enumerate(ss):
        if idx < start:
            continue
        if n >= maxn:
            break
        n += 1
        lines = text.split("\n")
        orig = lines[li]
        lines[li] = orig[:a] + rep + orig[b:]
        open(os.path.join(WT, path), "w").write("\n".join(lines))
        rec = {"idx": idx, "file": path, "line": li + 1, "from": orig.strip(), "to": lines[li].strip(), "props": props}
        t0 = time.time()
        rc, o = sh("cargo test --offline --no-fail-fast 2>&1", cwd=WT, timeout=1800)
        if "error" in o and ("could not compile" in o or "error[" in o):
            rec["status"] = "does-not-compile"
        elif rc != 0:
            rec["status"] = "killed-by-crate-tests"
        else:
            rec["status"] = "survived-crate-tests"
            rec["checks"] = {}
            caught = False
            for p in props:
                rc2, o2 = sh(f"VERIF_REPO={WT} ./check {p} quick 2>&1", cwd=V, timeout=7200)
                rec["checks"][p] = {"rc": rc2, "why": [l.strip() for l in o2.splitlines() if l.strip().startswith("why:")][:1]}
                if rc2 == 1:
                    caught = True
                    break
                if rc2 == 2:
                    rec["checks"][p]["tail"] = o2[-600:]
            rec["verdict"] = "caught" if caught else ("no-property-anchored" if not props else "SURVIVED")
        rec["wall_s"] = round(time.time() - t0, 1)
        with open(resfile, "a") as f:
            f.write(json.dumps(rec) + "\n")
        print(json.dumps({k: rec[k] for k in ("idx", "line", "to", "status") if k in rec} | {"verdict": rec.get("verdict")}), flush=True)
        open(os.path.join(WT, path), "w").write(text)
    sh("git checkout -q -- .", cwd=WT)


if __name__ == "__main__":
    main()
