#!/usr/bin/env python3
"""seed_eval.py confirm <worktree> <Pid> [<seedname>]   confirm a seeded change in its scratch worktree and store it in /verif/seeded/
   seed_eval.py run <seedname> [quick|thorough] [props...]  apply it to /repo, run the check(s), undo, record the outcome
"""
import json, os, re, shutil, subprocess, sys, time
V = os.path.dirname(os.path.dirname(os.path.abspath(__file__)))


def sh(cmd, cwd=None, timeout=3600):
    p = subprocess.run(cmd, shell=True, cwd=cwd, stdout=subprocess.PIPE, stderr=subprocess.STDOUT, text=True, timeout=timeout)
    return p.returncode, p.stdout


def tests_summary(out):
    res = re.findall(r"test result: (\w+)\. (\d+) passed; (\d+) failed", out)
    return res


def confirm(wt, pid, name=None):
    name = name or pid
    src = os.path.join(wt, "seed", pid)
    sub = pid
    pid = pid.split("-")[0]
    sh("git checkout -- . && git clean -fdq tests src", cwd=wt)
    rc, out = sh(f"git apply --check {src}/patch.diff", cwd=wt)
    assert rc == 0, "patch does not apply: " + out
    shutil.copy(os.path.join(src, "demo.rs"), os.path.join(wt, "tests", f"demo_{pid}.rs"))
    _ = sub
    # without the change: everything passes, demo included
    rc0, out0 = sh("cargo test --offline --no-fail-fast 2>&1", cwd=wt)
    base = tests_summary(out0)
    sh(f"git apply {src}/patch.diff", cwd=wt)
    rc1, out1 = sh("cargo test --offline --no-fail-fast 2>&1", cwd=wt)
    mut = tests_summary(out1)
    demo_fail = re.search(rf"demo_{pid}", out1) is not None and "FAILED" in out1
    sh("git checkout -- . && git clean -fdq tests src", cwd=wt)
    # existing suites: lib 72, tests/test.rs 2, doctests 2 must pass in both; the demo target must fail only with the change
    ok_base = rc0 == 0 and all(r[0] == "ok" for r in base)
    existing_ok_mut = sum(1 for r in mut if r[0] == "ok") >= 3 and sum(1 for r in mut if r[0] != "ok") == 1
    print("base:", base, "\nwith change:", mut)
    if not (ok_base and existing_ok_mut and demo_fail):
        print("NOT CONFIRMED")
        return 1
    dst = os.path.join(V, "seeded", name)
    os.makedirs(dst, exist_ok=True)
    for f in ("patch.diff", "demo.rs", "notes.md"):
        if os.path.exists(os.path.join(src, f)):
            shutil.copy(os.path.join(src, f), os.path.join(dst, f))
    meta = {"property": pid, "name": name,
            "confirmed": {"existing_suite_passes_with_change": True, "demo_fails_with_change": True, "demo_passes_without": True,
                          "how": "git apply in a scratch worktree under /tmp; cargo test --offline --no-fail-fast with and without the change",
                          "results_without": base, "results_with": mut},
            "needs_to_manifest": open(os.path.join(src, "notes.md")).read() if os.path.exists(os.path.join(src, "notes.md")) else "",
            "checks": {}}
    with open(os.path.join(dst, "meta.json"), "w") as f:
        json.dump(meta, f, indent=1)
    print("CONFIRMED ->", dst)
    return 0


def run(name, tier="quick", props=None):
    dst = os.path.join(V, "seeded", name)
    meta = json.load(open(os.path.join(dst, "meta.json")))
    props = props or [meta["property"]]
    rc, out = sh(f"git -C /repo status --porcelain")
    assert out.strip() == "", "/repo is not clean"
    rc, out = sh(f"git -C /repo apply {dst}/patch.diff")
    assert rc == 0, out
    try:
        for p in props:
            t0 = time.time()
            rc, out = sh(f"VERIF_EVIDENCE_DIR={V}/work/evidence-scratch ./check {p} {tier} 2>&1", cwd=V, timeout=7200)
            viol = [l for l in out.splitlines() if l.startswith("VIOLATION")]
            why = [l.strip() for l in out.splitlines() if l.strip().startswith("why:")]
            verdict = "caught" if rc == 1 and viol else ("missed" if rc == 0 else f"tool-error rc={rc}")
            meta["checks"][f"{p}:{tier}"] = {"verdict": verdict, "violations": len(viol), "why": why[:3], "wall_s": round(time.time() - t0, 1)}
            print(f"{name}: ./check {p} {tier} -> {verdict} ({len(viol)} VIOLATION lines) {why[:1]}")
            if rc not in (0, 1):
                print(out[-1500:])
    finally:
        sh("git -C /repo checkout -- . && git -C /repo clean -fdq src tests")
        for f in os.listdir(os.path.join(V, "replays")):
            if f.endswith(".json"):
                os.remove(os.path.join(V, "replays", f))
    with open(os.path.join(dst, "meta.json"), "w") as f:
        json.dump(meta, f, indent=1)


def runall(tier="quick"):
    names = sorted(d for d in os.listdir(os.path.join(V, "seeded")) if os.path.exists(os.path.join(V, "seeded", d, "meta.json")))
    missed = []
    for n in names:
        run(n, tier)
        meta = json.load(open(os.path.join(V, "seeded", n, "meta.json")))
        if meta["checks"].get(f"{meta['property']}:{tier}", {}).get("verdict") != "caught":
            missed.append(n)
    print(f"{len(names) - len(missed)} of {len(names)} seeded changes caught by the {tier} check of their property; missed: {missed}")


def run_in_worktree(patch, props, tier="quick", label=None, expect="caught"):
    """Applies a patch in a fresh scratch worktree of /repo (never /repo itself), runs the given checks against that
    worktree (VERIF_REPO), removes the worktree. Returns {prop: verdict}."""
    label = label or os.path.basename(os.path.dirname(os.path.abspath(patch)))
    wt = f"/tmp/vseed/{label}-{os.getpid()}"
    os.makedirs("/tmp/vseed", exist_ok=True)
    sh(f"git -C /repo worktree add -q --detach {wt} HEAD")
    out = {}
    try:
        rc, o = sh(f"git apply {os.path.abspath(patch)}", cwd=wt)
        assert rc == 0, o
        env = f"VERIF_REPO={wt}"
        for p in props:
            rc, o = sh(f"{env} ./check {p} {tier} 2>&1", cwd=V, timeout=7200)
            viol = [l for l in o.splitlines() if l.startswith("VIOLATION")]
            why = [l.strip() for l in o.splitlines() if l.strip().startswith("why:")]
            out[p] = {"rc": rc, "violations": len(viol), "why": why[:2]}
            print(f"{label}: {p} {tier} -> rc={rc} violations={len(viol)} {why[:1]}", flush=True)
            if rc == 2:
                print(o[-1200:])
    finally:
        import hashlib
        sh(f"git -C /repo worktree remove --force {wt}")
        shutil.rmtree(os.path.join(V, "work", "harness-" + hashlib.sha1(wt.encode()).hexdigest()[:10]), ignore_errors=True)
    return out


if __name__ == "__main__":
    if sys.argv[1] == "wt":
        # seed_eval.py wt <patch.diff> <tier> <prop> [<prop> ...]
        run_in_worktree(sys.argv[2], sys.argv[4:], sys.argv[3])
    elif sys.argv[1] == "runall":
        runall(sys.argv[2] if len(sys.argv) > 2 else "quick")
    elif sys.argv[1] == "confirm":
        sys.exit(confirm(*sys.argv[2:5]))
    else:
        run(sys.argv[2], sys.argv[3] if len(sys.argv) > 3 else "quick", sys.argv[4:] or None)
