"""Shared plumbing for the /verif checks: build, harness runs, TLC runs, evidence, findings.

Nothing in here computes an expectation about the library: scenarios go to the harness,
traces go to TLC, and TLC's judgement (FAIL lines / acceptance) is all that is read back.
"""
import hashlib, json, os, re, shutil, subprocess, sys, time, random
from concurrent.futures import ThreadPoolExecutor

VERIF = os.path.dirname(os.path.dirname(os.path.abspath(__file__)))
SPEC = os.path.join(VERIF, "spec")
WORK = os.path.join(VERIF, "work")
# The registered checks always build against /repo. For experiments (seeded changes evaluated in scratch
# worktrees, in parallel, without touching /repo) VERIF_REPO may name another checkout: a private copy of the
# harness project (same sources, own target directory) is then built against it.
REPO = os.environ.get("VERIF_REPO", "/repo")
if REPO == "/repo":
    HARNESS_DIR = os.path.join(VERIF, "harness")
else:
    HARNESS_DIR = os.path.join(WORK, "harness-" + hashlib.sha1(REPO.encode()).hexdigest()[:10])
HARNESS_BIN = os.path.join(HARNESS_DIR, "target", "debug", "aidl-verif-harness")
# experiments (seeded changes, other checkouts) write their evidence elsewhere, never into /verif/evidence
EVID = os.environ.get("VERIF_EVIDENCE_DIR") or (os.path.join(VERIF, "evidence") if os.environ.get("VERIF_REPO", "/repo") == "/repo"
                                                  else os.path.join(VERIF, "work", "evidence-scratch"))
REPLAYS = os.path.join(VERIF, "replays")
TLA_CP = "/opt/veriftools/tla/tla2tools.jar:/opt/veriftools/tla/CommunityModules-deps.jar"
NPROC = int(os.environ.get("VERIF_NPROC", "14"))


class ToolError(Exception):
    pass


def log(*a):
    print(*a, file=sys.stderr, flush=True)


def seed():
    try:
        return int(os.environ.get("VERIF_SEED", "1"))
    except ValueError:
        return 1


def cid_of(text):
    return hashlib.sha1(text.encode("utf-8", "surrogatepass")).hexdigest()[:16]


# ------------------------------------------------------------------------------------
# build
# ------------------------------------------------------------------------------------
def _private_harness():
    base = os.path.join(VERIF, "harness")
    os.makedirs(os.path.join(HARNESS_DIR, ".cargo"), exist_ok=True)
    with open(os.path.join(base, "Cargo.toml")) as f:
        toml = f.read().replace('path = "/repo"', f'path = "{REPO}"')
    with open(os.path.join(HARNESS_DIR, "Cargo.toml"), "w") as f:
        f.write(toml)
    shutil.copy(os.path.join(base, "Cargo.lock"), os.path.join(HARNESS_DIR, "Cargo.lock"))
    shutil.copy(os.path.join(base, ".cargo", "config.toml"), os.path.join(HARNESS_DIR, ".cargo", "config.toml"))
    link = os.path.join(HARNESS_DIR, "src")
    if not os.path.exists(link):
        os.symlink(os.path.join(base, "src"), link)


def build_harness():
    """Always rebuilds from /repo's current working tree (cargo sees the path dependency)."""
    t0 = time.time()
    if REPO != "/repo":
        _private_harness()
    env = dict(os.environ, CARGO_NET_OFFLINE="true")
    r = subprocess.run(["cargo", "build", "--offline", "-q"], cwd=HARNESS_DIR, env=env,
                       stdout=subprocess.PIPE, stderr=subprocess.STDOUT, text=True)
    if r.returncode != 0 or not os.path.exists(HARNESS_BIN):
        sys.stderr.write(r.stdout[-4000:])
        raise ToolError("harness build failed")
    log(f"[build] harness built in {time.time()-t0:.1f}s")


# ------------------------------------------------------------------------------------
# harness
# ------------------------------------------------------------------------------------
def prepare(sc):
    """Fill in content identities (cid = hash of the text) on add ops."""
    for op in sc["ops"]:
        if op["op"] in ("add", "addfile") and "text" in op and "cid" not in op:
            op["cid"] = cid_of(op["text"])
    return sc


def _run_harness_chunk(args):
    scen, wdir, k = args
    sfile = os.path.join(wdir, f"sc{k}.ndjson")
    events = []
    todo = scen
    rnd = 0
    while todo:
        rnd += 1
        tfile = os.path.join(wdir, f"tr{k}_{rnd}.ndjson")
        with open(sfile, "w") as f:
            for s in todo:
                f.write(json.dumps(s) + "\n")
        scratch = os.path.join(wdir, f"scratch{k}")
        p = subprocess.run([HARNESS_BIN, "run", sfile, tfile, scratch],
                           stdout=subprocess.PIPE, stderr=subprocess.PIPE)
        lines = []
        if os.path.exists(tfile):
            with open(tfile, encoding="utf-8") as f:
                for ln in f:
                    ln = ln.strip()
                    if not ln:
                        continue
                    try:
                        lines.append(json.loads(ln))
                    except json.JSONDecodeError:
                        pass  # torn last line of a dead process
        pending = None
        for e in lines:
            if e["ev"] == "Begin":
                pending = e
            else:
                events.append(e)
                if e["ev"] != "Reset":
                    pending = None
        if p.returncode == 0:
            break
        # the process died (abort, stack overflow) or the watchdog fired (exit 3)
        if pending is None:
            raise ToolError(f"harness died outside a call: rc={p.returncode} {p.stderr[-300:]!r}")
        sid = pending["sid"]
        idx = next(i for i, s in enumerate(todo) if s["sid"] == sid)
        op = todo[idx]["ops"][pending["n"]]
        ev = {"ev": op["op"], "sid": sid, "n": pending["n"],
              "out": "timeout" if p.returncode == 3 else "abort", "rc": p.returncode}
        for kf in ("i", "id", "path", "cid"):
            if kf in op:
                ev[kf] = op[kf]
        events.append(ev)
        todo = todo[idx + 1:]
        try:
            os.remove(tfile)
        except OSError:
            pass
    shutil.rmtree(os.path.join(wdir, f"scratch{k}"), ignore_errors=True)
    for fn in os.listdir(wdir):
        if fn.startswith(f"tr{k}_") or fn == f"sc{k}.ndjson":
            os.remove(os.path.join(wdir, fn))
    return events


def run_harness(scenarios, wdir, nproc=None):
    """Executes scenarios against the real library; returns the list of events (in scenario order)."""
    nproc = nproc or NPROC
    os.makedirs(wdir, exist_ok=True)
    scenarios = [prepare(s) for s in scenarios]
    n = max(1, min(nproc, (len(scenarios) + 19) // 20))
    size = (len(scenarios) + n - 1) // n
    chunks = [(scenarios[i * size:(i + 1) * size], wdir, i) for i in range(n)]
    chunks = [c for c in chunks if c[0]]
    t0 = time.time()
    with ThreadPoolExecutor(max_workers=nproc) as ex:
        res = list(ex.map(_run_harness_chunk, chunks))
    events = [e for r in res for e in r]
    log(f"[harness] {len(scenarios)} scenarios, {len(events)} events in {time.time()-t0:.1f}s")
    return events


# ------------------------------------------------------------------------------------
# TLC
# ------------------------------------------------------------------------------------
def _tlc_cmd(module, cfg, metadir, workers=1, xmx="3g", extra=()):
    # TLC leaves an empty tlc-* directory in java.io.tmpdir on every run: keep it inside the metadir, which the
    # caller removes, so that nothing accumulates under /tmp
    os.makedirs(metadir, exist_ok=True)
    return ["java", "-XX:+UseParallelGC", "-Xss1g", f"-Xmx{xmx}", f"-Djava.io.tmpdir={metadir}",
            "-Dtlc2.tool.queue.IStateQueue=StateDeque", "-Dfile.encoding=UTF-8",
            "-Dstdout.encoding=UTF-8", "-cp", TLA_CP, "tlc2.TLC",
            "-workers", str(workers), "-metadir", metadir, "-noGenerateSpecTE",
            "-config", cfg, *extra, module]


_str_re = re.compile(r'^"((?:[^"\\]|\\.)*)"$')


def tla_unquote(line):
    """A PrintT'ed TLA+ string: "...", with \\" and \\\\ escapes."""
    m = _str_re.match(line.strip())
    if not m:
        return None
    s = m.group(1)
    return s.replace('\\"', '"').replace("\\\\", "\\")


def parse_tlc_stats(out):
    st = {}
    m = re.search(r"(\d+) states generated, (\d+) distinct states found", out)
    if m:
        st["generated"] = int(m.group(1))
        st["distinct"] = int(m.group(2))
    return st


def _validate_chunk(args):
    tfile, k, wdir, module, timeout = args
    meta = os.path.join(wdir, f"meta{k}")
    env = dict(os.environ, TRACE=tfile)
    env.pop("JAVA_TOOL_OPTIONS", None)
    cmd = ["timeout", str(timeout)] + _tlc_cmd(module + ".tla", module + ".cfg", meta)
    p = subprocess.run(cmd, cwd=SPEC, env=env, stdout=subprocess.PIPE, stderr=subprocess.STDOUT, text=True)
    shutil.rmtree(meta, ignore_errors=True)
    out = p.stdout
    fails = []
    stats = {}
    for ln in out.splitlines():
        s = tla_unquote(ln)
        if s and s.startswith("FAIL "):
            fails.append(json.loads(s[5:]))
        elif s and s.startswith("STATS "):
            stats = json.loads(s[6:])
    ok = "Model checking completed. No error has been found." in out
    if not ok:
        sys.stderr.write(out[-3000:])
        raise ToolError(f"TLC did not accept trace chunk {tfile} (rc={p.returncode})")
    st = parse_tlc_stats(out)
    st["spec"] = stats
    return fails, st


def validate_trace(events, wdir, module="TraceAidl", chunk_events=1500, nproc=None, timeout=1500):
    """Hands the recorded events to TLC (trace spec). Returns (fails, stats)."""
    nproc = nproc or NPROC
    os.makedirs(wdir, exist_ok=True)
    # chunks are cut at scenario boundaries (Reset events)
    # (also cut by size: a chunk is one JSON file that TLC holds in memory)
    chunks, cur, cur_bytes = [], [], 0
    for e in events:
        line = json.dumps(e, ensure_ascii=True)
        if e["ev"] == "Reset" and (len(cur) >= chunk_events or cur_bytes >= 30_000_000):
            chunks.append(cur)
            cur, cur_bytes = [], 0
        cur.append(line)
        cur_bytes += len(line)
    if cur:
        chunks.append(cur)
    args = []
    for k, ch in enumerate(chunks):
        tfile = os.path.join(wdir, f"trace{k}.ndjson")
        with open(tfile, "w", encoding="ascii") as f:
            for line in ch:
                f.write(line + "\n")
        args.append((tfile, k, wdir, module, timeout))
    t0 = time.time()
    fails, gen, dist = [], 0, 0
    spec_stats = {}
    with ThreadPoolExecutor(max_workers=nproc) as ex:
        for fl, st in ex.map(_validate_chunk, args):
            fails.extend(fl)
            gen += st.get("generated", 0)
            dist += st.get("distinct", 0)
            for k2, v2 in st.get("spec", {}).items():
                spec_stats[k2] = spec_stats.get(k2, 0) + v2
    for a in args:
        try:
            os.remove(a[0])
        except OSError:
            pass
    log(f"[tlc] validated {len(events)} events in {len(chunks)} chunks, {len(fails)} FAIL lines, {time.time()-t0:.1f}s")
    return fails, {"states": dist, "transitions": gen, "chunks": len(chunks), "spec": spec_stats}


def run_model_expect_violation(module, invariant, workers=2, timeout=600, wdir=None, env_extra=None):
    """A negative control: the run MUST end with the named invariant violated (TLC exit code 12)."""
    wdir = wdir or os.path.join(WORK, "mc")
    os.makedirs(wdir, exist_ok=True)
    meta = os.path.join(wdir, f"meta_neg_{module}_{os.getpid()}")
    env = dict(os.environ)
    env.pop("JAVA_TOOL_OPTIONS", None)
    if env_extra:
        env.update(env_extra)
    cmd = ["timeout", str(timeout)] + _tlc_cmd(module + ".tla", module + ".cfg", meta, workers=workers, xmx="2g")
    p = subprocess.run(cmd, cwd=SPEC, env=env, stdout=subprocess.PIPE, stderr=subprocess.STDOUT, text=True)
    shutil.rmtree(meta, ignore_errors=True)
    if f"Invariant {invariant} is violated" not in p.stdout:
        sys.stderr.write(p.stdout[-3000:])
        raise ToolError(f"negative control {module} {env_extra}: expected a violation of {invariant}")
    st = parse_tlc_stats(p.stdout)
    log(f"[tlc] {module} {env_extra}: invariant {invariant} violated as it must be (negative control), {st.get('distinct')} states")
    return st


def run_model(module, cfg=None, workers=8, timeout=1800, wdir=None, env_extra=None, xmx="8g"):
    """Runs a bounded model (MC_*). Returns (stdout, stats, printed strings)."""
    wdir = wdir or os.path.join(WORK, "mc")
    os.makedirs(wdir, exist_ok=True)
    meta = os.path.join(wdir, f"meta_{module}_{os.getpid()}")
    env = dict(os.environ)
    env.pop("JAVA_TOOL_OPTIONS", None)
    if env_extra:
        env.update(env_extra)
    cmd = ["timeout", str(timeout)] + _tlc_cmd(module + ".tla", (cfg or module) + ".cfg", meta, workers=workers, xmx=xmx)
    t0 = time.time()
    p = subprocess.run(cmd, cwd=SPEC, env=env, stdout=subprocess.PIPE, stderr=subprocess.STDOUT, text=True)
    shutil.rmtree(meta, ignore_errors=True)
    out = p.stdout
    if "Model checking completed. No error has been found." not in out:
        sys.stderr.write(out[-4000:])
        raise ToolError(f"TLC run of {module} failed (rc={p.returncode})")
    printed = []
    for ln in out.splitlines():
        s = tla_unquote(ln)
        if s is not None:
            printed.append(s)
    st = parse_tlc_stats(out)
    log(f"[tlc] {module}: {st.get('distinct')} distinct states, {st.get('generated')} generated, "
        f"{len(printed)} printed lines, {time.time()-t0:.1f}s")
    return out, st, printed


def run_proofs(module="AidlProofs", wdir=None, timeout=900):
    """Re-checks the TLAPS proofs (unbounded instances / ids / contents) of the store and project modules."""
    wdir = wdir or os.path.join(WORK, "mc")
    cache = os.path.join(wdir, f"tlaps_{os.getpid()}")
    os.makedirs(cache, exist_ok=True)
    t0 = time.time()
    try:
        p = subprocess.run(["timeout", str(timeout), "tlapm", "--threads", str(min(8, NPROC)), "--cache-dir", cache, module + ".tla"],
                           cwd=SPEC, stdout=subprocess.PIPE, stderr=subprocess.STDOUT, text=True)
    except FileNotFoundError:
        raise ToolError("tlapm not found on PATH")
    finally:
        shutil.rmtree(cache, ignore_errors=True)
    m = re.search(r"All (\d+) obligations? proved", p.stdout)
    if not m:
        sys.stderr.write(p.stdout[-3000:])
        raise ToolError(f"tlapm did not prove every obligation of {module} (rc={p.returncode})")
    log(f"[tlapm] {module}: all {m.group(1)} obligations proved, {time.time()-t0:.1f}s")
    return int(m.group(1))


# ------------------------------------------------------------------------------------
# findings, evidence, verdict
# ------------------------------------------------------------------------------------
def load_known():
    p = os.path.join(VERIF, "known_findings.json")
    if not os.path.exists(p):
        return []
    with open(p) as f:
        return json.load(f).get("findings", [])


def write_evidence(prop, tier, level, coverage, wall, violations, assumptions):
    os.makedirs(EVID, exist_ok=True)
    ev = {"property_id": prop, "tier": tier, "seed": seed(), "level": level, "coverage": coverage,
          "assumptions": assumptions, "wall_s": round(wall, 2), "violations": violations}
    with open(os.path.join(EVID, f"{prop}.json"), "w") as f:
        json.dump(ev, f, indent=1, ensure_ascii=True)


def fresh_workdir(name):
    d = os.path.join(WORK, f"{name}-{os.getpid()}")
    shutil.rmtree(d, ignore_errors=True)
    os.makedirs(d)
    return d
