"""Per-property plans: which bounded models (TLC) and which random drivers produce the scenarios,
how they are executed (harness) and judged (TLC trace spec), findings, evidence, replay."""
import hashlib, json, os, random, shutil, subprocess, sys, time

import common as C
import render as R
import families as F

PLANS = {}


def plan(prop):
    def deco(fn):
        PLANS[prop] = fn
        return fn
    return deco


# --------------------------------------------------------------------------------------
# engine
# --------------------------------------------------------------------------------------
class Run:
    def __init__(self, prop, tier):
        self.prop, self.tier = prop, tier
        self.scenarios = []
        self.model_states = 0
        self.model_transitions = 0
        self.models = []
        self.exhaustive = False
        self.rule = ""
        self.assumptions = []
        self.rng = random.Random(C.seed() * 7919 + int(prop[1:]))
        self.wdir = C.fresh_workdir(f"{prop}-{tier}")

    def add_model(self, module, cfg=None, env=None, workers=8, timeout=1800):
        out, st, printed = C.run_model(module, cfg, workers=workers, timeout=timeout, wdir=self.wdir, env_extra=env)
        self.model_states += st.get("distinct", 0)
        self.model_transitions += st.get("generated", 0)
        self.models.append({"module": module, "env": env or {}, "distinct": st.get("distinct", 0)})
        return [json.loads(s[5:]) for s in printed if s.startswith("SCEN ")]

    def add(self, scen):
        self.scenarios.extend(scen)


def scenario_hash(sc):
    h = hashlib.sha1()
    for op in sc["ops"]:
        h.update(json.dumps({k: v for k, v in op.items() if k != "m"}, sort_keys=True).encode())
    return h.hexdigest()


def by_sid(events):
    d = {}
    for e in events:
        d.setdefault(e["sid"], []).append(e)
    return d


def short_scenario(sc):
    """A readable, compact rendering of a scenario for evidence samples."""
    out = {"sid": sc["sid"], "src": sc.get("src", ""), "ops": []}
    for op in sc["ops"]:
        o = {k: v for k, v in op.items() if k in ("op", "i", "id", "path", "mode", "filter", "pred", "stage", "detail", "thread")}
        if "text" in op:
            o["text"] = op["text"] if len(op["text"]) <= 400 else op["text"][:400] + "..."
        out["ops"].append(o)
        if len(out["ops"]) >= 12:
            out["ops"].append({"op": "..."})
            break
    return out


def match_known(prop, fail, sc, evs):
    for kf in C.load_known():
        if kf.get("property") != prop:
            continue
        fn = KNOWN_MATCHERS.get(kf.get("matcher"))
        if fn and fn(kf, fail, sc, evs):
            return kf
    return None


KNOWN_MATCHERS = {}


def matcher(name):
    def deco(fn):
        KNOWN_MATCHERS[name] = fn
        return fn
    return deco


def judge(run, nontrivial, level_note="", extra_cov=None, chunk_events=1500):
    """Executes run.scenarios, validates the trace with TLC, reports."""
    t0 = time.time()
    prop = run.prop
    # unique sids
    for k, sc in enumerate(run.scenarios):
        sc["sid"] = f"{prop}-{k}-{sc.get('src', '')}"
    events = C.run_harness(run.scenarios, run.wdir)
    fails, tst = C.validate_trace(events, run.wdir, chunk_events=chunk_events)
    evs = by_sid(events)
    scs = {sc["sid"]: sc for sc in run.scenarios}
    mine = {}
    cross = {}
    for f in fails:
        if f["prop"] == prop:
            mine.setdefault(f["sid"], []).append(f)
        else:
            cross[f["prop"]] = cross.get(f["prop"], 0) + 1
    violations, known_hits = [], {}
    for sid, fl in mine.items():
        sc = scs[sid]
        unexplained = []
        for f in fl:
            kf = match_known(prop, f, sc, evs.get(sid, []))
            if kf:
                known_hits.setdefault(kf["id"], [kf, 0])[1] += 1
            else:
                unexplained.append(f)
        if unexplained:
            violations.append((sc, unexplained))
    # evidence
    seen, nontriv = set(), 0
    for sc in run.scenarios:
        h = scenario_hash(sc)
        if h in seen:
            continue
        seen.add(h)
        try:
            if nontrivial(sc, evs.get(sc["sid"], [])):
                nontriv += 1
        except Exception:
            pass
    samples = [short_scenario(sc) for sc in run.scenarios[:1] + run.scenarios[len(run.scenarios) // 2:len(run.scenarios) // 2 + 1] + run.scenarios[-1:]]
    cov = {
        "states": run.model_states + tst["states"],
        "transitions": run.model_transitions + tst["transitions"],
        "traces_validated_against_impl": len(run.scenarios),
        "evaluations": len(events),
        "distinct_nontrivial": nontriv,
        "rule": run.rule,
        "samples": samples,
        "exhaustive": run.exhaustive,
        "models": run.models,
        "model_states": run.model_states,
        "trace_states": tst["states"],
        "trace_chunks": tst["chunks"],
        "fail_lines_for_other_properties_in_these_scenarios": cross,
        "known_findings_hit": {k: v[1] for k, v in known_hits.items()},
    }
    if extra_cov:
        cov.update(extra_cov)
    os.makedirs(C.REPLAYS, exist_ok=True)
    rc = 0
    for kid, (kf, n) in known_hits.items():
        print(f"KNOWN-FINDING: property={prop} {kf['what']} [{kid}; {n} judgement(s) in this run]")
    for k, (sc, fl) in enumerate(violations[:20]):
        path = os.path.join(C.REPLAYS, f"{prop}-{run.tier}-{C.seed()}-{k}.json")
        with open(path, "w") as f:
            json.dump({"property": prop, "tier": run.tier, "seed": C.seed(), "fails": fl, "scenario": sc}, f, indent=1)
        print(f"VIOLATION property={prop} replay={path}")
        C.log(f"  why: {fl[0]['why']} (event n={fl[0]['n']}, {len(fl)} FAIL line(s)); src={sc.get('src')}")
        rc = 1
    if len(violations) > 20:
        C.log(f"  ... and {len(violations) - 20} more violating scenarios")
    C.write_evidence(prop, run.tier, "model_checking", cov, time.time() - T0[0], len(violations),
                     run.assumptions + ["TLC 1.8.0 and its Json/IOUtils modules", "the renderer is string concatenation of pieces",
                                        "the hand-written projection of results in /verif/harness"])
    shutil.rmtree(run.wdir, ignore_errors=True)
    C.log(f"[{prop}] {len(run.scenarios)} scenarios, {len(events)} events, {len(violations)} violating scenario(s), "
          f"{sum(v[1] for v in known_hits.values())} known-finding judgement(s), {time.time()-T0[0]:.1f}s")
    return rc


T0 = [0.0]


def run_property(prop, tier):
    T0[0] = time.time()
    C.build_harness()
    run = Run(prop, tier)
    try:
        return PLANS[prop](run)
    finally:
        shutil.rmtree(run.wdir, ignore_errors=True)


def replay(prop, path):
    T0[0] = time.time()
    C.build_harness()
    with open(path) as f:
        rp = json.load(f)
    sc = rp["scenario"]
    wdir = C.fresh_workdir(f"replay-{prop}")
    try:
        events = C.run_harness([sc], wdir)
        fails, _ = C.validate_trace(events, wdir)
        mine = [f for f in fails if f["prop"] == prop]
        evs = by_sid(events).get(sc["sid"], [])
        mine = [f for f in mine if not match_known(prop, f, sc, evs)]
        if mine:
            print(f"VIOLATION property={prop} replay={path}")
            C.log(f"  why: {mine[0]['why']}")
            return 1
        print(f"replay of {path}: property {prop} holds on this scenario")
        return 0
    finally:
        shutil.rmtree(wdir, ignore_errors=True)


def setup():
    C.build_harness()
    bad = 0
    for fn in sorted(os.listdir(C.SPEC)):
        if fn.endswith(".tla"):
            p = subprocess.run(["java", "-cp", C.TLA_CP, "tla2sany.SANY", fn], cwd=C.SPEC,
                               stdout=subprocess.PIPE, stderr=subprocess.STDOUT, text=True)
            if p.returncode != 0 or "error" in p.stdout.lower().replace("semantic errors:\n\n", ""):
                if "*** Errors" in p.stdout or "Abort" in p.stdout or p.returncode != 0:
                    bad += 1
                    sys.stderr.write(f"SANY failed on {fn}:\n{p.stdout[-1500:]}\n")
    if bad:
        return 2
    print("setup ok")
    return 0


# --------------------------------------------------------------------------------------
# helpers shared by the plans
# --------------------------------------------------------------------------------------
def validated_obs(evs):
    for e in evs:
        if e["ev"] == "validate" and "obs" in e:
            for o in e["obs"]:
                yield o


def nodes_of(evs):
    for o in validated_obs(evs):
        for n in o["nodes"]:
            yield n


def nt_named_type(sc, evs):
    return any(n["c"] == "type" and n["a"] == "named" for n in nodes_of(evs))


def nt_imports(sc, evs):
    return any(n["c"] in ("imp", "fwd") for n in nodes_of(evs))


def nt_args(sc, evs):
    return any(n["c"] == "arg" for n in nodes_of(evs))


def nt_containers(sc, evs):
    return any(n["c"] == "type" and n["a"] in ("array", "list", "map") for n in nodes_of(evs))


def nt_methods2(sc, evs):
    return sum(1 for n in nodes_of(evs) if n["c"] == "method") >= 2


def nt_oneway(sc, evs):
    return any(n["c"] in ("method", "item") and n["ow"] for n in nodes_of(evs))


def project_families(run, fams, tier):
    out = []
    for fam in fams:
        scs = run.add_model("MC_Validate", env={"FAMILY": fam, "TIER": tier})
        out.extend(F.project_scenario(s, f"mc-{fam}") for s in scs)
    return out


# --------------------------------------------------------------------------------------
# plans
# --------------------------------------------------------------------------------------
def validation_plan(run, fams, nontrivial, n_random_quick, n_random_thorough, rule, exhaustive_quick=False):
    tier = run.tier
    run.add(project_families(run, fams, tier))
    nrand = n_random_quick if tier == "quick" else n_random_thorough
    run.add(F.random_projects(run.rng, nrand, focus=run.prop))
    run.rule = rule
    run.exhaustive = False
    return judge(run, nontrivial)


@plan("C05")
def c05(run):
    return validation_plan(run, ["res"], nt_named_type, 300, 3000,
        "TLC enumerates MC_Validate family 'res' (reference name x import subsets x forward declarations x project "
        "items x placement/nesting) exhaustively within the tier's bound; plus seeded random multi-file projects with "
        "adversarially similar names. Non-trivial = distinct scenario whose observed tree has at least one named type reference.")


@plan("C06")
def c06(run):
    return validation_plan(run, ["imp"], nt_imports, 300, 3000,
        "TLC enumerates family 'imp' (all import lists up to the bound over 5 candidates x forward-declaration lists x "
        "usage mode); plus random projects. Non-trivial = distinct scenario with at least one import or forward declaration.")


@plan("C07")
def c07(run):
    return validation_plan(run, ["dir"], nt_args, 300, 3000,
        "TLC enumerates family 'dir' exhaustively: 17 categories x 4 directions x method oneway x interface oneway x "
        "3 argument positions = 816 cells, each in a project that makes the category arise through real resolution; plus "
        "random projects. Non-trivial = distinct scenario with at least one method argument.")


@plan("C08")
def c08(run):
    return validation_plan(run, ["cont"], nt_containers, 300, 3000,
        "TLC enumerates family 'cont': every constructor path (array, list, map key, map value) up to depth 2 (quick) / 3 "
        "(thorough) x 16 leaves x 4 syntactic positions, plus all pairs of leaves in both map slots; plus random projects. "
        "Non-trivial = distinct scenario with at least one container type.")


@plan("C09")
def c09(run):
    return validation_plan(run, ["meth"], nt_methods2, 300, 3000,
        "TLC enumerates family 'meth': all method sequences up to length 3 (quick) / 4 (thorough) over 3 names x {no code, "
        "3 codes}, with and without interleaved constants; plus random interfaces with long sequences and large / "
        "zero-padded codes. Non-trivial = distinct scenario with at least two methods.")


@plan("C10")
def c10(run):
    return validation_plan(run, ["ow"], nt_oneway, 300, 3000,
        "TLC enumerates family 'ow': interface oneway x per-method oneway x return type over all 17 categories for "
        "interfaces of up to 2 methods (3 methods over 4 return categories in the thorough tier), with and without a "
        "constant in between; plus random projects. Non-trivial = distinct scenario in which some method or the interface is oneway.")


def selftest():
    print("selftest: not implemented yet")
    return 0
