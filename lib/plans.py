"""Per-property plans: which bounded models (TLC) and which random drivers produce the scenarios,
how they are executed (harness) and judged (TLC trace spec), findings, evidence, replay."""
import hashlib, json, os, random, shutil, subprocess, sys, time

import common as C
import render as R
import families as F

PLANS = {}


def plan(prop):
    def deco(fn):
        PLANS[prop] = fn
        return fn
    return deco


# --------------------------------------------------------------------------------------
# engine
# --------------------------------------------------------------------------------------
class Run:
    def __init__(self, prop, tier):
        self.prop, self.tier = prop, tier
        self.scenarios = []
        self.model_states = 0
        self.model_transitions = 0
        self.models = []
        self.exhaustive = False
        self.rule = ""
        self.assumptions = []
        self.rng = random.Random(C.seed() * 7919 + int(prop[1:]))
        self.wdir = C.fresh_workdir(f"{prop}-{tier}")

    def add_model(self, module, cfg=None, env=None, workers=8, timeout=1800):
        out, st, printed = C.run_model(module, cfg, workers=workers, timeout=timeout, wdir=self.wdir, env_extra=env)
        self.model_states += st.get("distinct", 0)
        self.model_transitions += st.get("generated", 0)
        self.models.append({"module": module, "env": env or {}, "distinct": st.get("distinct", 0)})
        return [json.loads(s[5:]) for s in printed if s.startswith("SCEN ")]

    def add(self, scen):
        self.scenarios.extend(scen)

    def add_proofs(self):
        """Thorough tier: the TLAPS proofs of AidlProofs.tla (frame lemmas, KeysExact inductive, Locality) are re-checked."""
        if self.tier != "thorough":
            return
        n = C.run_proofs("AidlProofs", wdir=self.wdir)
        self.models.append({"module": "AidlProofs (tlapm)", "env": {}, "obligations_proved": n})


def scenario_hash(sc):
    h = hashlib.sha1()
    for op in sc["ops"]:
        h.update(json.dumps({k: v for k, v in op.items() if k != "m"}, sort_keys=True).encode())
    return h.hexdigest()


def by_sid(events):
    d = {}
    for e in events:
        d.setdefault(e["sid"], []).append(e)
    return d


def short_scenario(sc):
    """A readable, compact rendering of a scenario for evidence samples."""
    out = {"sid": sc["sid"], "src": sc.get("src", ""), "ops": []}
    for op in sc["ops"]:
        o = {k: v for k, v in op.items() if k in ("op", "i", "id", "path", "mode", "filter", "pred", "stage", "detail", "thread")}
        if "text" in op:
            o["text"] = op["text"] if len(op["text"]) <= 400 else op["text"][:400] + "..."
        out["ops"].append(o)
        if len(out["ops"]) >= 12:
            out["ops"].append({"op": "..."})
            break
    return out


def match_known(prop, fail, sc, evs):
    for kf in C.load_known():
        if kf.get("property") != prop:
            continue
        fn = KNOWN_MATCHERS.get(kf.get("matcher"))
        if fn and fn(kf, fail, sc, evs):
            return kf
    return None


KNOWN_MATCHERS = {}


def matcher(name):
    def deco(fn):
        KNOWN_MATCHERS[name] = fn
        return fn
    return deco


def judge(run, nontrivial, level_note="", extra_cov=None, chunk_events=1500):
    """Executes run.scenarios, validates the trace with TLC, reports."""
    t0 = time.time()
    prop = run.prop
    # unique sids
    for k, sc in enumerate(run.scenarios):
        sc["sid"] = f"{prop}-{k}-{sc.get('src', '')}"
    events = C.run_harness(run.scenarios, run.wdir)
    # scenarios that ask for it are executed again in further OS processes (fresh hash keys);
    # those events are appended to the same scenario, so the trace spec compares across processes
    multi = [sc for sc in run.scenarios if sc.get("procs", 1) > 1]
    if multi:
        extra = {}
        for pno in range(2, max(sc["procs"] for sc in multi) + 1):
            batch = [sc for sc in multi if sc["procs"] >= pno]
            for e in C.run_harness(batch, run.wdir, nproc=max(2, C.NPROC // 2)):
                if e["ev"] != "Reset":
                    e["proc"] = pno
                    extra.setdefault(e["sid"], []).append(e)
        merged, cur = [], None
        for e in events:
            if e["ev"] == "Reset" and cur is not None:
                merged.extend(extra.get(cur, []))
            if e["ev"] == "Reset":
                cur = e["sid"]
            merged.append(e)
        merged.extend(extra.get(cur, []))
        events = merged
    fails, tst = C.validate_trace(events, run.wdir, chunk_events=chunk_events)
    evs = by_sid(events)
    scs = {sc["sid"]: sc for sc in run.scenarios}
    mine = {}
    cross = {}
    for f in fails:
        if f["prop"] == prop:
            mine.setdefault(f["sid"], []).append(f)
        else:
            cross[f["prop"]] = cross.get(f["prop"], 0) + 1
    violations, known_hits = [], {}
    for sid, fl in mine.items():
        sc = scs[sid]
        unexplained = []
        for f in fl:
            kf = match_known(prop, f, sc, evs.get(sid, []))
            if kf:
                known_hits.setdefault(kf["id"], [kf, 0])[1] += 1
            else:
                unexplained.append(f)
        if unexplained:
            violations.append((sc, unexplained))
    # evidence
    seen, nontriv = set(), 0
    for sc in run.scenarios:
        h = scenario_hash(sc)
        if h in seen:
            continue
        seen.add(h)
        try:
            if nontrivial(sc, evs.get(sc["sid"], [])):
                nontriv += 1
        except Exception:
            pass
    samples = [short_scenario(sc) for sc in run.scenarios[:1] + run.scenarios[len(run.scenarios) // 2:len(run.scenarios) // 2 + 1] + run.scenarios[-1:]]
    cov = {
        "states": run.model_states + tst["states"],
        "transitions": run.model_transitions + tst["transitions"],
        "traces_validated_against_impl": len(run.scenarios),
        "evaluations": len(events),
        "distinct_nontrivial": nontriv,
        "rule": run.rule,
        "samples": samples,
        "exhaustive": run.exhaustive,
        "models": run.models,
        "model_states": run.model_states,
        "trace_states": tst["states"],
        "trace_chunks": tst["chunks"],
        "trace_spec_counters": tst.get("spec", {}),
        "fail_lines_for_other_properties_in_these_scenarios": cross,
        "known_findings_hit": {k: v[1] for k, v in known_hits.items()},
    }
    if extra_cov:
        cov.update(extra_cov)
    os.makedirs(C.REPLAYS, exist_ok=True)
    rc = 0
    for kid, (kf, n) in known_hits.items():
        print(f"KNOWN-FINDING: property={prop} {kf['what']} [{kid}; {n} judgement(s) in this run]")
    for k, (sc, fl) in enumerate(violations[:20]):
        path = os.path.join(C.REPLAYS, f"{prop}-{run.tier}-{C.seed()}-{k}.json")
        with open(path, "w") as f:
            json.dump({"property": prop, "tier": run.tier, "seed": C.seed(), "fails": fl, "scenario": sc}, f, indent=1)
        print(f"VIOLATION property={prop} replay={path}")
        C.log(f"  why: {fl[0]['why']} (event n={fl[0]['n']}, {len(fl)} FAIL line(s)); src={sc.get('src')}")
        rc = 1
    if len(violations) > 20:
        C.log(f"  ... and {len(violations) - 20} more violating scenarios")
    C.write_evidence(prop, run.tier, "model_checking", cov, time.time() - T0[0], len(violations),
                     run.assumptions + ["TLC 1.8.0 and its Json/IOUtils modules", "the renderer is string concatenation of pieces",
                                        "the hand-written projection of results in /verif/harness"])
    shutil.rmtree(run.wdir, ignore_errors=True)
    C.log(f"[{prop}] {len(run.scenarios)} scenarios, {len(events)} events, {len(violations)} violating scenario(s), "
          f"{sum(v[1] for v in known_hits.values())} known-finding judgement(s), {time.time()-T0[0]:.1f}s")
    return rc


T0 = [0.0]


def run_property(prop, tier):
    T0[0] = time.time()
    C.build_harness()
    run = Run(prop, tier)
    try:
        return PLANS[prop](run)
    finally:
        shutil.rmtree(run.wdir, ignore_errors=True)


def replay(prop, path):
    T0[0] = time.time()
    C.build_harness()
    with open(path) as f:
        rp = json.load(f)
    sc = rp["scenario"]
    wdir = C.fresh_workdir(f"replay-{prop}")
    try:
        events = C.run_harness([sc], wdir)
        fails, _ = C.validate_trace(events, wdir)
        mine = [f for f in fails if f["prop"] == prop]
        evs = by_sid(events).get(sc["sid"], [])
        mine = [f for f in mine if not match_known(prop, f, sc, evs)]
        if mine:
            print(f"VIOLATION property={prop} replay={path}")
            C.log(f"  why: {mine[0]['why']}")
            return 1
        print(f"replay of {path}: property {prop} holds on this scenario")
        return 0
    finally:
        shutil.rmtree(wdir, ignore_errors=True)


def setup():
    C.build_harness()
    bad = 0
    for fn in sorted(os.listdir(C.SPEC)):
        if fn.endswith(".tla"):
            jvm = []
            if "TLAPS" in open(os.path.join(C.SPEC, fn)).read().split("=====")[0].split("EXTENDS", 1)[-1].split("\n", 1)[0]:
                # a proof module: the TLAPS standard module comes with tlapm, not with tla2tools
                lib = "/opt/veriftools/tlapm/lib/tlapm/stdlib"
                if not os.path.isdir(lib):
                    print(f"setup: {fn} skipped (tlapm's standard library not found)")
                    continue
                jvm = [f"-DTLA-Library={lib}"]
            p = subprocess.run(["java", *jvm, "-cp", C.TLA_CP, "tla2sany.SANY", fn], cwd=C.SPEC,
                               stdout=subprocess.PIPE, stderr=subprocess.STDOUT, text=True)
            if p.returncode != 0 or "error" in p.stdout.lower().replace("semantic errors:\n\n", ""):
                if "*** Errors" in p.stdout or "Abort" in p.stdout or p.returncode != 0:
                    bad += 1
                    sys.stderr.write(f"SANY failed on {fn}:\n{p.stdout[-1500:]}\n")
    if bad:
        return 2
    print("setup ok")
    return 0


# --------------------------------------------------------------------------------------
# helpers shared by the plans
# --------------------------------------------------------------------------------------
def validated_obs(evs):
    for e in evs:
        if e["ev"] == "validate" and "obs" in e:
            for o in e["obs"]:
                yield o


def nodes_of(evs):
    for o in validated_obs(evs):
        for n in o["nodes"]:
            yield n


def nt_named_type(sc, evs):
    return any(n["c"] == "type" and n["a"] == "named" for n in nodes_of(evs))


def nt_imports(sc, evs):
    return any(n["c"] in ("imp", "fwd") for n in nodes_of(evs))


def nt_args(sc, evs):
    return any(n["c"] == "arg" for n in nodes_of(evs))


def nt_containers(sc, evs):
    return any(n["c"] == "type" and n["a"] in ("array", "list", "map") for n in nodes_of(evs))


def nt_methods2(sc, evs):
    return sum(1 for n in nodes_of(evs) if n["c"] == "method") >= 2


def nt_oneway(sc, evs):
    return any(n["c"] in ("method", "item") and n["ow"] for n in nodes_of(evs))


def project_families(run, fams, tier):
    out = []
    for fam in fams:
        scs = run.add_model("MC_Validate", env={"FAMILY": fam, "TIER": tier})
        out.extend(F.project_scenario(s, f"mc-{fam}") for s in scs)
    return out


# --------------------------------------------------------------------------------------
# plans
# --------------------------------------------------------------------------------------
def validation_plan(run, fams, nontrivial, n_random_quick, n_random_thorough, rule, exhaustive_quick=False):
    tier = run.tier
    run.add(project_families(run, fams, tier))
    nrand = n_random_quick if tier == "quick" else n_random_thorough
    run.add(F.random_projects(run.rng, nrand, focus=run.prop))
    run.rule = rule
    run.exhaustive = False
    return judge(run, nontrivial)


ANDROID_PROBES = ["IBinder", "FileDescriptor", "ParcelFileDescriptor", "ParcelableHolder", "android.os.IBinder",
                  "android.os.ParcelFileDescriptor", "android.os.ParcelableHolder", "java.os.FileDescriptor", "java.io.FileDescriptor",
                  "os.IBinder", "ibinder", "IBinderX", "XIBinder", "android.os.", "", "android.os.ParcelFileDescriptor2", "Foo"]


@plan("C05")
def c05(run):
    run.add([{"sid": "", "src": "android-tables", "ops": [{"op": "android", "i": 1, "probes": ANDROID_PROBES}]}])
    # "among the files currently in the parser": every history of 3 (thorough: 4) operations over two ids (importer,
    # imported parcelable / enum under one key, unparsable text; add, replace, remove, validate), validated after every
    # step - the kind of a reference follows what the parser holds NOW
    for s_ in hist_model(run, "hist", 3 if run.tier == "quick" else 4, "core", "empty", nids="2"):
        run.add([F.hist_scenario(s_, "mc-hist-2ids", full=True)])
    return validation_plan(run, ["res", "shadow"], nt_named_type, 300, 3000,
        "TLC enumerates MC_Validate family 'res' (reference name x import subsets x forward declarations x project "
        "items x placement/nesting) exhaustively within the tier's bound; plus seeded random multi-file projects with "
        "adversarially similar names. Non-trivial = distinct scenario whose observed tree has at least one named type reference.")


@plan("C06")
def c06(run):
    # project items named like a built-in, imported / forward-declared and used by simple name (or not used): the
    # import wins over the built-in (C05), so it is 'used'; a forward declaration likewise
    for nm in F.BUILTINS:
        for decl in ("import", "fwd"):
            for use in ("simple", "deep", "none"):
                toks = [D.T("package"), D.T("p", "IDENT"), D.T(";")]
                if decl == "import":
                    toks += [D.T("import"), D.T("q", "IDENT"), D.T("."), D.T(nm, "IDENT"), D.T(";")]
                else:
                    toks += [D.T("parcelable"), D.T(nm, "IDENT"), D.T(";")]
                toks += [D.T("parcelable"), D.T("P", "IDENT"), D.T("{")]
                if use == "simple":
                    toks += [D.T(nm, "IDENT"), D.T("x", "IDENT"), D.T(";")]
                elif use == "deep":
                    toks += [D.T("List"), D.T("<"), D.T(nm, "IDENT"), D.T("["), D.T("]"), D.T(">"), D.T("x", "IDENT"), D.T(";")]
                else:
                    toks += [D.T("int"), D.T("x", "IDENT"), D.T(";")]
                toks.append(D.T("}"))
                other = [D.T("package"), D.T("q", "IDENT"), D.T(";"), D.T("parcelable"), D.T(nm, "IDENT"), D.T("{"), D.T("}")]
                run.add([piece_scenario([("a", D.layout(toks, run.rng, mode="spaces")), ("b", D.layout(other, run.rng, mode="spaces"))],
                                        "builtin-named-items", validate=True)])
    return validation_plan(run, ["imp"], nt_imports, 300, 3000,
        "TLC enumerates family 'imp' (all import lists up to the bound over 5 candidates x forward-declaration lists x "
        "usage mode); plus random projects. Non-trivial = distinct scenario with at least one import or forward declaration.")


@plan("C07")
def c07(run):
    # rich interfaces: annotated arguments, arguments without direction, oneway interfaces with constants between methods
    g = D.RichGen(run.rng, maxdepth=2)
    for _ in range(300 if run.tier == "quick" else 5000):
        run.add([piece_scenario([("a", D.layout(g.document("interface"), run.rng, mode="spaces"))], "rich-interface", validate=True)])
    return validation_plan(run, ["dir"], nt_args, 300, 3000,
        "TLC enumerates family 'dir' exhaustively: 17 categories x 4 directions x method oneway x interface oneway x "
        "3 argument positions = 816 cells, each in a project that makes the category arise through real resolution; plus "
        "random projects. Non-trivial = distinct scenario with at least one method argument.")


@plan("C08")
def c08(run):
    return validation_plan(run, ["cont"], nt_containers, 300, 3000,
        "TLC enumerates family 'cont': every constructor path (array, list, map key, map value) up to depth 2 (quick) / 3 "
        "(thorough) x 16 leaves x 4 syntactic positions, plus all pairs of leaves in both map slots; plus random projects. "
        "Non-trivial = distinct scenario with at least one container type.")


def big_interfaces(run, n, sizes=(34, 40, 64)):
    """Interfaces with many distinct-named methods whose explicit codes repeat, in no particular order (the bookkeeping
    of "the earlier method with that code" must not depend on how many there are)."""
    out = []
    for k in range(n):
        size = sizes[k % len(sizes)]
        pool = [str(c) for c in run.rng.sample(range(0, 50), run.rng.randint(3, 12))]
        toks = [D.T("package"), D.T("p", "IDENT"), D.T(";"), D.T("interface"), D.T("I", "IDENT"), D.T("{")]
        for m in range(size):
            toks += [D.T("void"), D.T("m%d" % m, "IDENT"), D.T("("), D.T(")")]
            if run.rng.random() < 0.9:
                toks += [D.T("="), D.T(run.rng.choice(pool), "INTEGER")]
            toks.append(D.T(";"))
            if run.rng.random() < 0.05:
                toks += [D.T("const"), D.T("int"), D.T("K%d" % m, "IDENT"), D.T("="), D.T("1"), D.T(";")]
        toks.append(D.T("}"))
        out.append(F.project_scenario({"files": [{"id": "a", "toks": toks}], "main": "a"}, "big-interface"))
    return out


@plan("C09")
def c09(run):
    run.add(big_interfaces(run, 9 if run.tier == "quick" else 120))
    # codes at the edges of narrower integer types, names that differ only in case, a constant named like a method
    edge = ["", "0", "1", "65535", "65536", "65537", "2147483647", "2147483648", "4294967295", "4294967294", "16777216", "16777217", "16777215", "16777214", "0016777216", "04294967295"]
    names = ["f", "F", "g", "K"]
    for _ in range(400 if run.tier == "quick" else 6000):
        toks = [D.T("package"), D.T("p", "IDENT"), D.T(";"), D.T("interface"), D.T("I", "IDENT"), D.T("{")]
        for m in range(run.rng.randint(2, 5)):
            if run.rng.random() < 0.15:
                toks += [D.T("const"), D.T("int"), D.T(run.rng.choice(names), "IDENT"), D.T("="), D.T("1"), D.T(";")]
                continue
            toks += [D.T("void"), D.T(run.rng.choice(names), "IDENT"), D.T("("), D.T(")")]
            c = run.rng.choice(edge)
            if c:
                toks += [D.T("="), D.T(c, "INTEGER")]
            toks.append(D.T(";"))
        toks.append(D.T("}"))
        # (as pieces: the trace spec also compares every method's code with the code written in the source)
        run.add([piece_scenario([("a", D.layout(toks, run.rng, mode="spaces"))], "edge-codes", validate=True)])
    return validation_plan(run, ["meth"], nt_methods2, 300, 3000,
        "TLC enumerates family 'meth': all method sequences up to length 3 (quick) / 4 (thorough) over 3 names x {no code, "
        "3 codes}, with and without interleaved constants; plus random interfaces with long sequences and large / "
        "zero-padded codes. Non-trivial = distinct scenario with at least two methods.")


@plan("C10")
def c10(run):
    g = D.RichGen(run.rng, maxdepth=1)
    n = 400 if run.tier == "quick" else 6000
    docs = []
    while len(docs) < n:
        toks = g.document("interface")
        if any(t[1] == "oneway" for t in toks):
            docs.append(piece_scenario([("a", D.layout(toks, run.rng, mode="spaces"))], "rich-oneway", validate=True))
    run.add(docs)
    return validation_plan(run, ["ow"], nt_oneway, 300, 3000,
        "TLC enumerates family 'ow': interface oneway x per-method oneway x return type over all 17 categories for "
        "interfaces of up to 2 methods (3 methods over 4 return categories in the thorough tier), with and without a "
        "constant in between; plus random projects. Non-trivial = distinct scenario in which some method or the interface is oneway.")


# --------------------------------------------------------------------------------------
# C12 / C13 / C11 / C01: the store level
# --------------------------------------------------------------------------------------
def hist_model(run, mode, depth, ops, frm, contents="plain", nids="3"):
    return run.add_model("MC_Hist", env={"MODE": mode, "DEPTH": str(depth), "OPS": ops, "FROM": frm,
                                         "CONTENTS": contents, "TIER": run.tier, "NIDS": nids})


def nt_history(sc, evs):
    # a history is non-trivial when some id was replaced or removed after having been added
    seen, touched = set(), False
    for op in sc["ops"]:
        if op.get("i") != 1:
            continue
        k = op.get("id") or op.get("path")
        if op["op"] in ("add", "addfile") and op.get("mode", "ok") == "ok":
            touched = touched or k in seen
            seen.add(k)
        elif op["op"] == "remove" and k in seen:
            touched = True
    return touched


@plan("C12")
def c12(run):
    q = run.tier == "quick"
    run.add_proofs()
    scs = []
    for s in hist_model(run, "hist", 3 if q else 4, "core", "empty"):
        scs.append(F.hist_scenario(s, "mc-hist-empty-core"))
    for s in hist_model(run, "hist", 2 if q else 3, "all", "empty"):
        scs.append(F.hist_scenario(s, "mc-hist-empty-all"))
    for s in hist_model(run, "hist", 1 if q else 2, "core", "all"):
        scs.append(F.hist_scenario(s, "mc-hist-all-direct", "direct"))
        scs.append(F.hist_scenario(s, "mc-hist-all-long", "long"))
    # one id, every operation incl. the three add_file outcomes, longer histories (a file loaded, its slot
    # overwritten by add_content, the unchanged file loaded again, ...)
    for s in hist_model(run, "hist", 3 if q else 4, "all", "empty", nids="1"):
        scs.append(F.hist_scenario(s, "mc-hist-one-id-all"))
    run.add(scs)
    run.add(F.random_histories(run.rng, 150 if q else 2500))
    run.rule = ("TLC enumerates MC_Hist: every operation history of the stated length over 3 ids x 4 structured contents "
                "(from the empty parser over the core and the full alphabet incl. the three add_file outcomes; from every one "
                "of the 125 abstract states, each entered through a direct and a long history) and attaches the abstract "
                "store after every step; the replay validates the live parser and a fresh parser loaded from that abstract "
                "store after EVERY step and the trace spec demands equal results for equal (id, content) maps; plus seeded "
                "random histories up to length 40 over generated projects. Non-trivial = distinct history in which some id "
                "is replaced or removed after having been added.")
    run.exhaustive = False
    return judge(run, nt_history, chunk_events=4000)


def nt_perturb(sc, evs):
    return sum(1 for op in sc["ops"] if op["op"] == "validate") >= 2 and any(
        n["c"] == "imp" for n in nodes_of(evs))


@plan("C13")
def c13(run):
    q = run.tier == "quick"
    run.add_proofs()
    scs = [F.trans_scenario(s, "mc-trans") for s in hist_model(run, "trans", 1, "core", "all", "rich")]
    run.add(scs)
    run.add(F.random_perturbations(run.rng, 200 if q else 3000))
    # a file that imports one simple name from two packages, next to files that import only one of them: what the
    # neighbours import (or how often validation ran) must not influence which import the name resolves to
    S = "package s;\nimport a.Foo;\nimport b.Foo;\ninterface S {\n  void f(in Foo x, in List<Foo> y);\n}\n"
    Ns = ["package n;\nimport b.Foo;\ninterface N {\n  void g(in Foo x);\n}\n",
          "package n;\nimport a.Foo;\ninterface N {\n  void g(in Foo x);\n}\n",
          "package n;\ninterface N {\n  void g();\n}\n",
          "package n;\nimport b.Foo;\nimport a.Foo;\ninterface N {\n  Foo g();\n}\n"]
    defs = [("da", "package a;\nparcelable Foo {\n  int x;\n}\n"), ("db", "package b;\ninterface Foo {\n  void p();\n}\n")]
    for rep in range(3 if q else 20):
        order = list(range(len(Ns)))
        run.rng.shuffle(order)
        ops = [{"op": "new", "i": 1}]
        for id_, t in defs:
            ops.append({"op": "add", "i": 1, "id": id_, "text": t})
        ops.append({"op": "add", "i": 1, "id": "s", "text": S})
        for k in order:
            ops.append({"op": "add", "i": 1, "id": "n", "text": Ns[k]})
            ops.append({"op": "validate", "i": 1})
            ops.append({"op": "validate", "i": 1})
        ops.append({"op": "remove", "i": 1, "id": "n"})
        ops.append({"op": "validate", "i": 1})
        run.add([{"sid": "", "src": "ambiguous-imports-neighbours", "ops": ops}])
    run.rule = ("TLC enumerates every transition (from, op, to) of MC_Hist in 'trans' mode over 2 (quick) / 3 (thorough) ids x 8 "
                "contents (two importers of p.B and q.C, two bodies of parcelable p.B, enum p.B, interface q.C, an unrelated "
                "file, a malformed text) and checks Locality on the model; each transition is replayed with a full "
                "observation before and after, and the trace spec requires an equal result whenever a file's content and "
                "the facts about its imports are equal (kind changes / removals are the control where the facts differ and "
                "C05-C10 judge the changed result); plus random projects with random perturbations. Non-trivial = distinct "
                "scenario with an importing file observed at least twice.")
    return judge(run, nt_perturb, extra_cov=None)


def nt_multi_diag_line(sc, evs):
    for o in validated_obs(evs):
        lines = [d["r"][2] for d in o["diags"]]
        if len(lines) != len(set(lines)):
            return True
    return False


@plan("C11")
def c11(run):
    q = run.tier == "quick"
    scs = []
    # design level: hash-order emission + stable sort; (line, column) key must be deterministic, the line-only key must not
    run.add_model("MC_Order", env={"KEY": "pos"}, workers=2)
    neg = C.run_model_expect_violation("MC_Order", "Deterministic", wdir=run.wdir, env_extra={"KEY": "line"})
    run.models.append({"module": "MC_Order", "env": {"KEY": "line"}, "negative_control": "Deterministic violated, as required",
                       "distinct": neg.get("distinct", 0)})
    for s in run.add_model("MC_Validate", env={"FAMILY": "order", "TIER": run.tier}):
        for rep in range(2 if q else 6):
            scs.append(F.determinism_scenario(s["files"], "mc-order", run.rng, layout="oneline", procs=2 if q else 3))
    g = F.ProjGen(run.rng, "C11")
    for k in range(120 if q else 1500):
        pr = g.project()
        scs.append(F.determinism_scenario(pr["files"], "rnd-project", run.rng,
                                          layout="oneline" if k % 2 else "default", procs=2 if k % 3 == 0 else 1))
    # many hash-ordered warnings (25-100 unresolved imports) together with pairs of diagnostics that share a start
    # position: the order among equal starts must be the same in every call / instance / process too
    for n_imp in ((30, 60) if q else (25, 30, 40, 60, 80, 100)):
        for rep in range(2 if q else 4):
            toks = [D.T("package"), D.T("p", "IDENT"), D.T(";")]
            for k in range(n_imp):
                toks += [D.T("import"), D.T("u%d" % (k % 7), "IDENT"), D.T("."), D.T("N%d" % k, "IDENT"), D.T(";")]
            toks += [D.T("oneway"), D.T("interface"), D.T("I", "IDENT"), D.T("{")]
            for k in range(6):
                toks += [D.T("void"), D.T("m%d" % k, "IDENT"), D.T("("), D.T("out"), D.T("int"), D.T("a", "IDENT"), D.T(","),
                         D.T("List"), D.T("b", "IDENT"), D.T(")"), D.T(";")]
            toks.append(D.T("}"))
            scs.append(F.determinism_scenario([{"id": "a", "toks": toks}], "many-imports-ties", run.rng, procs=2))
    run.add(scs)
    # replacement histories: an id whose content is replaced (also by content without a tree) must give what a new
    # parser holding the final pairs gives
    for s_ in hist_model(run, "hist", 2 if q else 3, "core", "empty"):
        run.add([F.hist_scenario(s_, "mc-hist-empty-core")])
    # ... and over two ids, one step deeper: an importer, the imported file, the imported file replaced by one of
    # another kind under the same key (or removed)
    for s_ in hist_model(run, "hist", 3 if q else 4, "core", "empty", nids="2"):
        run.add([F.hist_scenario(s_, "mc-hist-2ids")])
    # files that keep their tree after a recovered syntax error AND get validation diagnostics: the two kinds of
    # diagnostics must come out merged in ascending order
    run.add(mutated_docs(run, 500 if q else 8000, validate=True))
    run.rule = ("TLC enumerates family 'order' (2-4 diagnostics forced onto one line: unused imports, forward declarations, "
                "argument errors; ambiguous imports of one simple name from several packages; several files registering one "
                "key with different kinds), each replayed repeatedly; every scenario validates the same (id, content) pairs 7 "
                "times in place, in a new instance with reversed and shuffled insertion orders, in fresh threads and in 2-3 "
                "separate OS processes; the trace spec demands equal digests (trees + diagnostic lists in order) for equal "
                "stores and ascending (line, column) order; plus random projects. Non-trivial = distinct scenario where some "
                "file has two diagnostics on one line.")
    return judge(run, nt_multi_diag_line)


def nt_soup(sc, evs):
    return any(e["ev"] == "validate" for e in evs) and any(len(op.get("text", "")) > 0 for op in sc["ops"])


@plan("C01")
def c01(run):
    q = run.tier == "quick"
    run.add_proofs()
    g = F.ProjGen(run.rng, "C01")
    base = []
    for _ in range(12 if q else 40):
        pr = g.project()
        base += [R.text_of(R.default_layout(f["toks"])) for f in pr["files"]]
    base += [F.DOC_FRAME_1, F.DOC_FRAME_2]
    run.add(F.soup_scenarios(run.rng, 2500 if q else 60000, base))
    run.add(F.injection_scenarios([F.DOC_FRAME_1, F.DOC_FRAME_2] if q else [F.DOC_FRAME_1, F.DOC_FRAME_2] + base[:6],
                                  F.HAZARD if not q else F.HAZARD[:12]))
    # histories: "exactly one result for each id CURRENTLY in the parser" after removals / replacements / failed loads
    for s_ in hist_model(run, "hist", 2 if q else 3, "all", "empty"):
        run.add([F.hist_scenario(s_, "mc-hist-empty-all")])
    run.add(F.random_histories(run.rng, 60 if q else 1000))
    # TLC-enumerated: every hazard atom at EVERY character gap of frame documents, with the specification's own
    # lexer / tree builder / layout judging the parse-stage result of each
    run.add(lex_scenarios(run, slot="parc" if q else "all", mode="inject"))
    run.rule = ("Seeded generators of arbitrary UTF-8 texts: character soups over a hazard alphabet (2-, 3-, 4-byte letters, "
                "combining mark, NBSP, U+3000, U+2028, NEL, CR, CRLF, TAB, quote, slash, star, NUL, BOM), token soups, mutated "
                "well-formed documents, generic nesting to depth 64, documents up to 64 KiB, 1-6 files per parser; and every "
                "hazard atom injected at every token / comment / string boundary of two frame documents that contain every "
                "construct. Every call is an event; the trace spec (AidlStore.AddContent is enabled for EVERY content) "
                "rejects any call that panics, aborts or hangs, and demands exactly one result per id held, tagged with its "
                "own id. Non-trivial = distinct scenario with a non-empty text.")
    return judge(run, nt_soup, chunk_events=6000)


# --------------------------------------------------------------------------------------
# C15 / C16 / C17: symbols
# --------------------------------------------------------------------------------------
def nt_deep_types(sc, evs):
    return any(n["c"] == "type" and len(n["p"]) >= 5 for e in evs if e["ev"] == "walk" for n in e.get("nodes", []))


def symbol_plan(run, what, nrand_q, nrand_t, rule, nontrivial, chunk=600):
    q = run.tier == "quick"
    scs = []
    for s in run.add_model("MC_Validate", env={"FAMILY": "sym", "TIER": run.tier}):
        s["query"] = ["a", "r"]
        scs.append(F.symbol_scenario(s, "mc-sym", what))
        if run.prop in ("C16", "C17") and (not q or len(scs) % 3 == 0):
            scs.append(F.symbol_scenario(s, "mc-sym-layout", what, layout="random", rng=run.rng))
    if run.prop == "C17":
        for s in run.add_model("MC_Validate", env={"FAMILY": "shadow", "TIER": run.tier}):
            s["query"] = ["a", "d1"]
            scs.append(F.symbol_scenario(s, "mc-shadow", what))
    g = F.ProjGen(run.rng, run.prop)
    for _ in range(nrand_q if q else nrand_t):
        pr = g.project()
        pr["query"] = [f["id"] for f in pr["files"]][:3]
        scs.append(F.symbol_scenario(pr, "rnd-project", what))
        if run.prop in ("C16", "C17"):
            scs.append(F.symbol_scenario(pr, "rnd-project-layout", what, layout="random", rng=run.rng))
    run.add(scs)
    run.rule = rule
    return judge(run, nontrivial, chunk_events=chunk)


@plan("C15")
def c15(run):
    return symbol_plan(run, ("walk", "filter", "find", "walkers"), 60, 1200,
        "TLC enumerates family 'sym' (every item kind x package depth 1-3 x all member lists up to length 2 (quick) / 3 "
        "(thorough) over 19 interface / 10 parcelable member shapes with types nested to depth 4, plus a referencing file); "
        "for every tree the harness calls walk_symbols at the three filter levels, filter_symbols / find_symbol with the "
        "predicates 'k-th visited' (all k), 'is of class K' (all 9 classes incl. the package), 'name equals N' (every name "
        "written in the document) and walk_types / walk_methods / walk_args, identifying every delivered reference by "
        "pointer identity; the trace spec compares with AidlSymbols.Walk / FilterPaths / FindPath. Plus random projects. "
        "Non-trivial = distinct scenario whose tree has a type nested at least two levels deep.", nt_deep_types)


def nt_multiline(sc, evs):
    return any(e["ev"] == "lookups" and len(e.get("positions", [])) > 50 for e in evs)


@plan("C16")
def c16(run):
    return symbol_plan(run, ("lookup",), 60, 1200,
        "Same trees as C15 (family 'sym' + random projects); for EVERY (line, column) of the rendered document (columns 1 .. "
        "line length + 2, plus out-of-range positions) and each of the three filter levels the harness calls "
        "find_symbol_at_line_col; the trace spec compares with AidlSymbols.LookupPath (first symbol in traversal order whose "
        "reported name range contains the position, inclusive at both ends). Non-trivial = distinct scenario with more than "
        "50 probed positions.", nt_multiline)


def nt_resolved_item_type(sc, evs):
    return any(n["c"] == "type" and len(n["rk"]) == 3 and n["rk"][1] in ("interface", "parcelable", "enum")
               for e in evs if e["ev"] == "walk" for n in e.get("nodes", []))


@plan("C17")
def c17(run):
    return symbol_plan(run, ("walk", "key"), 100, 2000,
        "Family 'sym' (every item kind x package depth 1-3, a second file in another package referencing the item as return "
        "type, argument and nested generic) + random projects; for every symbol delivered by walk_symbols on every file the "
        "harness records get_name / get_qualified_name, and Aidl::get_key; the trace spec compares with AidlSymbols.QNameOf / "
        "PlainNameOf (item = key, type resolving to an item = that item's key, members Owner::member, imports / package dotted). "
        "Non-trivial = distinct scenario in which some type symbol resolves to a project item.", nt_resolved_item_type)


# --------------------------------------------------------------------------------------
# C19: serde round trip
# --------------------------------------------------------------------------------------
def roundtrip_scenario(files, src, query=None):
    ops = [{"op": "new", "i": 1}]
    for f in files:
        text = f["text"] if "text" in f else R.text_of(R.default_layout(f["toks"]))
        ops.append({"op": "add", "i": 1, "id": f["id"], "text": text})
    ops.append({"op": "validate", "i": 1, "detail": "digest"})
    for f in files:
        if query is None or f["id"] in query:
            ops.append({"op": "roundtrip", "i": 1, "id": f["id"], "stage": "parsed"})
            ops.append({"op": "roundtrip", "i": 1, "id": f["id"], "stage": "validated"})
    return {"sid": "", "src": src, "ops": ops}


def nt_roundtrip(sc, evs):
    # non-trivial: a tree with a oneway method, a resolved type, a direction, an annotation or a doc
    for e in evs:
        if e["ev"] == "roundtrip":
            for n in e.get("before", []):
                if (n["c"] == "method" and n["ow"]) or len(n["rk"]) == 3 or n["a"] in ("in", "out", "inout") or n["ann"] or n["doc"]:
                    return True
    return False


@plan("C19")
def c19(run):
    q = run.tier == "quick"
    scs = []
    for fam in ("dir", "ow", "sym") if q else ("dir", "ow", "sym", "cont", "res"):
        for s in run.add_model("MC_Validate", env={"FAMILY": fam, "TIER": run.tier}):
            scs.append(roundtrip_scenario(s["files"], f"mc-{fam}", query=[s.get("main", "a")]))
    for k, t in enumerate((F.DOC_FRAME_1, F.DOC_FRAME_2, F.DOC_FRAME_3)):
        scs.append(roundtrip_scenario([{"id": f"frame{k}", "text": t}], "frame"))
    g = F.ProjGen(run.rng, "C19")
    for _ in range(200 if q else 3000):
        scs.append(roundtrip_scenario(g.project()["files"], "rnd-project"))
    # a large document (offsets beyond 65535, codes beyond 2^24, lines beyond 255)
    big = "package p;\n" + "// filler line\n" * 300 + "/* " + "x" * 70000 + " */\ninterface Big {\n"
    for k in range(40):
        big += "  /** m%d */ oneway void m%d(in int a, out int[] b) = %d;\n" % (k, k, 16777216 + k)
    big += "}\n"
    scs.append(roundtrip_scenario([{"id": "big", "text": big}], "big-doc"))
    # rich documents with annotations, values and doc comments of every shape (also the empty `/** */`)
    rg = D.RichGen(run.rng, maxdepth=2)
    for k in range(300 if q else 4000):
        pcs = D.layout(rg.document(), run.rng, mode="spaces", docs=0.5, unicode_ws=False, nl="\n")
        scs.append(roundtrip_scenario([{"id": "a", "text": D.text_of(pcs)}], "rich-docs"))
    run.add(scs)
    run.rule = ("Trees from the TLC-enumerated families 'dir' (all 17 resolved kinds x 4 directions x oneway), 'ow', 'sym' "
                "(+ 'cont', 'res' in the thorough tier), three frame documents with annotations, documentation and all value "
                "forms, and random projects; each tree - straight from parsing and after validation - is serialised with RON "
                "0.7 and read back; the RoundTrip step of the specification leaves the abstract tree unchanged, so the trace "
                "spec demands that the hand-written projection of the re-read tree equals the projection before, field by "
                "field, and that Rust's == holds. Non-trivial = distinct scenario whose tree has a oneway method, a resolved "
                "type, a direction, an annotation or documentation.")
    return judge(run, nt_roundtrip, chunk_events=1200)


# --------------------------------------------------------------------------------------
# documents as pieces: C02 / C03 / C04 / C18 / C20
# --------------------------------------------------------------------------------------
import docgen as D


def piece_scenario(docs, src, validate=True):
    """docs: list of (id, pieces). The Add event carries the pieces (argument) and the parse-stage result."""
    ops = [{"op": "new", "i": 1}]
    for id_, pcs in docs:
        ops.append({"op": "add", "i": 1, "id": id_, "text": D.text_of(pcs), "pieces": pcs, "parsed": True})
    if validate:
        ops.append({"op": "validate", "i": 1})
    return {"sid": "", "src": src, "ops": ops}


def mutate_tokens(toks, rng, n):
    toks = list(toks)
    pool = [D.T(x) for x in (";", ",", "{", "}", "(", ")", "[", "]", "<", ">", "=", ".", "-", "package", "import", "interface",
                             "parcelable", "enum", "oneway", "const", "in", "out", "inout", "void", "int", "String",
                             "CharSequence", "List", "Map", "true", "1", "\"s\"")]
    pool += [D.T("x", "IDENT"), D.T("Foo", "IDENT"), D.T("@A", "ANNOTATION"), D.T("1.5f", "FLOAT"), D.T("class", "RESERVED_KEYWORD"),
             D.T("for", "RESERVED_KEYWORD"), D.T("99999999999", "INTEGER"), D.T("new", "RESERVED_KEYWORD")]
    for _ in range(n):
        x = rng.random()
        if not toks:
            toks.append(rng.choice(pool))
            continue
        pos = rng.randrange(len(toks))
        if x < 0.3:
            toks.insert(pos, rng.choice(pool))
        elif x < 0.6:
            del toks[pos]
        elif x < 0.85:
            toks[pos] = rng.choice(pool)
        elif len(toks) > 1:
            q = rng.randrange(len(toks))
            toks[pos], toks[q] = toks[q], toks[pos]
    return toks


def nt_has_tree_nodes(sc, evs):
    return any(e["ev"] == "add" and e.get("pobs", {}).get("has_tree") and len(e["pobs"]["nodes"]) >= 6 for e in evs)


def family_token_docs(run, fams):
    out = []
    for fam in fams:
        for s in run.add_model("MC_Validate", env={"FAMILY": fam, "TIER": run.tier}):
            for f in s["files"]:
                if f["id"] == s.get("main", "a"):
                    out.append((fam, f["toks"]))
    return out


@plan("C02")
def c02(run):
    q = run.tier == "quick"
    scs = []
    fam_docs = family_token_docs(run, ["sym", "dir"] if q else ["sym", "dir", "cont", "ow", "meth"])
    for fam, toks in fam_docs:
        for mode in (("mixed", "tight") if q else ("mixed", "tight", "spaces", "mixed")):
            scs.append(piece_scenario([("a", D.layout(toks, run.rng, mode=mode, wild_comments=True))], f"mc-{fam}-{mode}", validate=False))
    g = D.RichGen(run.rng)
    for _ in range(400 if q else 6000):
        toks = g.document()
        for mode in ("mixed", "tight", "mixed"):
            scs.append(piece_scenario([("a", D.layout(toks, run.rng, mode=mode, wild_comments=True, docs=0.1))], f"rich-{mode}", validate=False))
    run.add(scs)
    run.rule = ("Token sequences from the TLC-enumerated families (sym, dir; + cont, ow, meth in the thorough tier) and from a "
                "seeded generator of rich well-formed documents (all member / type / value / annotation forms, near-keyword "
                "identifiers, trailing commas, qualified names, nesting to depth 4), each rendered under several layouts (no "
                "separator wherever the lexer needs none, spaces, tabs, LF / CRLF, Unicode white space, line and block comments "
                "with arbitrary text incl. comment openers and quotes, doc comments). The Add event carries the pieces; the trace "
                "spec parses the NON-TRIVIA pieces with AidlParse.ParseToks and requires the parse-stage tree to mirror it node by "
                "node (layout cannot matter by construction). Non-trivial = distinct document whose tree has at least 6 nodes.")
    return judge(run, nt_has_tree_nodes, chunk_events=800)


def slot_scenarios(run, depth, slot="all", layouts=("spaces",), mode="slots"):
    out, st, printed = C.run_model("MC_Slots", workers=8, timeout=3000, wdir=run.wdir,
                                   env_extra={"DEPTH": str(depth), "SLOT": slot, "MODE": mode})
    run.model_states += st.get("distinct", 0)
    run.model_transitions += st.get("generated", 0)
    run.models.append({"module": "MC_Slots", "env": {"DEPTH": depth, "SLOT": slot}, "distinct": st.get("distinct", 0)})
    frames = lex = None
    scs = []
    for s in printed:
        if s.startswith("FRAMES "):
            frames = json.loads(s[7:])
        elif s.startswith("LEX "):
            lex = json.loads(s[4:])
    nwell = 0
    for s in printed:
        if not s.startswith("SCEN "):
            continue
        x = json.loads(s[5:])
        fr = frames[x["slot"]]
        toks = fr["pre"] + [lex[v] for v in x["fill"]] + fr["suf"]
        nwell += 1 if x["v"]["ok"] else 0
        for lay in layouts:
            if mode == "recover":
                scs.append(recovery_scenario(fr["pre"], [lex[v] for v in x["fill"]], fr["suf"], run.rng, lay, f"mc-rec-{x['slot']}"))
            else:
                scs.append(piece_scenario([("a", D.layout(toks, run.rng, mode=lay))], f"mc-slot-{x['slot']}", validate=False))
    return scs, nwell


def recovery_scenario(pre, garbage, suf, rng, lay, src):
    """pre + garbage + suf[0] (the terminator) + suf[1:]; the Add event names the piece range of the garbage member"""
    toks = pre + garbage + suf
    pcs = D.layout(toks, rng, mode=lay)
    # piece indices (1-based) of the non-trivia pieces
    tix = [i + 1 for i, pc in enumerate(pcs) if pc[0] not in ("WS", "LCOM", "BCOM", "DOC")]
    g1 = tix[len(pre)]
    g2 = tix[len(pre) + len(garbage)]
    ops = [{"op": "new", "i": 1},
           {"op": "add", "i": 1, "id": "a", "text": D.text_of(pcs), "pieces": pcs, "parsed": True, "garbage": [g1, g2]}]
    return {"sid": "", "src": src, "ops": ops}


def lex_scenarios(run, slot="all", mode="lexemes"):
    out, st, printed = C.run_model("MC_Lex", workers=8, timeout=1800, wdir=run.wdir, env_extra={"SLOT": slot, "MODE": mode})
    run.model_states += st.get("distinct", 0)
    run.model_transitions += st.get("generated", 0)
    run.models.append({"module": "MC_Lex", "env": {"SLOT": slot, "MODE": mode}, "distinct": st.get("distinct", 0)})
    scs = []
    for s in printed:
        if s.startswith("SCEN "):
            x = json.loads(s[5:])
            text = "".join(R.ATOMS[a] if len(a) > 1 else a for a in x["atoms"])
            scs.append({"sid": "", "src": f"mc-{mode}-{x['slot']}", "ops": [
                {"op": "new", "i": 1},
                {"op": "add", "i": 1, "id": "a", "text": text, "atoms": x["atoms"], "parsed": True},
                {"op": "validate", "i": 1, "detail": "digest"}]})
    return scs


def nt_syntax_error(sc, evs):
    return any(e["ev"] == "add" and any(d["tag"] == "syntax" for d in e.get("pobs", {}).get("diags", [])) for e in evs)


def mutated_docs(run, n, src="rich-mutated", validate=False):
    g = D.RichGen(run.rng, maxdepth=2)
    scs = []
    for _ in range(n):
        toks = mutate_tokens(g.document(), run.rng, run.rng.randint(1, 4))
        scs.append(piece_scenario([("a", D.layout(toks, run.rng, mode=run.rng.choice(["mixed", "spaces", "tight"]), wild_comments=True))],
                                  src, validate=validate))
    return scs


@plan("C03")
def c03(run):
    q = run.tier == "quick"
    scs, nwell = slot_scenarios(run, 2 if q else 3)
    run.add(scs)
    run.add(lex_scenarios(run))
    run.add(lex_scenarios(run, slot="enum" if q else "all", mode="inject"))
    run.add(mutated_docs(run, 1500 if q else 30000, validate=True))
    g = D.RichGen(run.rng)
    for _ in range(300 if q else 3000):
        run.add([piece_scenario([("a", D.layout(g.document(), run.rng, mode="mixed"))], "rich", validate=True)])
    run.rule = ("TLC enumerates MC_Slots: every token string up to length 2 (quick) / 3 (thorough) over the 34 terminals + an "
                "INTEGER that does not fit 32 bits, substituted into each of 16 syntactic slots of a well-formed frame (package "
                "name, import path, forward declaration, item header, interface / parcelable / enum member, argument list, "
                "argument, generic parameters, after a type, transact code, const and field value, annotation parameters, after "
                "the item), decided by the specification's own tree builder; plus 1-4 random token insertions / deletions / "
                "replacements / swaps applied to rich generated documents, and well-formed documents. The trace spec re-derives "
                "the verdict from the pieces (AidlParse.ParseToks + the 32-bit rule) and demands: no syntax diagnostic and a tree "
                "iff well-formed; at least one Error otherwise; parse-stage diagnostics survive validation; no stored identifier "
                "is a keyword or reserved word. Lexical part: TLC enumerates MC_Lex (58 keywords / reserved words x 10 "
                "variants, numeric forms, unterminated / nested-looking strings and comments, non-ASCII atoms, in 13 lexical slots) "
                "as CHARACTER sequences; there the trace spec lexes the characters itself (AidlLex: longest match + block "
                "priority) before parsing. Non-trivial = distinct scenario with at least one syntax diagnostic.")
    run.exhaustive = False
    return judge(run, nt_syntax_error, chunk_events=3000, extra_cov={"slot_fillings_wellformed_per_spec": nwell})


def nt_multibyte_layout(sc, evs):
    for op in sc["ops"]:
        if op["op"] == "add" and any(ord(c) > 127 for c in op.get("text", "")) and "\n" in op["text"]:
            return True
    return False


@plan("C04")
def c04(run):
    q = run.tier == "quick"
    scs = []
    g = D.RichGen(run.rng)
    for _ in range(500 if q else 8000):
        toks = g.document()
        for mode in ("mixed", "mixed", "tight"):
            scs.append(piece_scenario([("a", D.layout(toks, run.rng, mode=mode, wild_comments=True, docs=0.15))], f"rich-{mode}", validate=True))
    for fam, toks in family_token_docs(run, ["sym"] if q else ["sym", "dir", "cont"]):
        scs.append(piece_scenario([("a", D.layout(toks, run.rng, mode="mixed", wild_comments=True))], f"mc-{fam}", validate=True))
    run.add(scs)
    run.add(mutated_docs(run, 1200 if q else 20000, validate=True))
    s2, _ = slot_scenarios(run, 1 if q else 2, layouts=("mixed",))
    run.add(s2)
    run.add(lex_scenarios(run, slot="small" if q else "all", mode="inject"))
    run.rule = ("Rich generated documents and TLC-enumerated family documents under layouts that put multi-byte text, CRLF, "
                "lone CR, NBSP / U+3000 / U+2028 / NEL, combining marks and comments before / inside / after every construct; the "
                "trace spec computes every position from the pieces (AidlLayout: UTF-8 offsets, 1-based line, column in grapheme "
                "clusters) and demands for every node the exact name range, a full range within the allowed start / end sets, "
                "containment and sibling order, and well-formedness of EVERY range in trees, diagnostics and related infos; on "
                "malformed inputs (token mutations, MC_Slots strings) every syntax diagnostic must cover exactly one token or the "
                "end of input and the earliest one the first offending token; validation diagnostics must sit on a node range. "
                "Non-trivial = distinct multi-line document containing multi-byte characters.")
    return judge(run, nt_multibyte_layout, chunk_events=1000)


def nt_has_doc(sc, evs):
    return any(e["ev"] == "add" and any(n["doc"] for n in e.get("pobs", {}).get("nodes", [])) for e in evs)


@plan("C18")
def c18(run):
    q = run.tier == "quick"
    scs = []
    g = D.RichGen(run.rng, maxdepth=2)
    for _ in range(900 if q else 15000):
        toks = g.document()
        nl = run.rng.choice(["\n", "\r\n"])
        scs.append(piece_scenario([("a", D.layout(toks, run.rng, mode=run.rng.choice(["spaces", "mixed"]), docs=0.6,
                                                  unicode_ws=False, wild_comments=False, nl=nl))], "rich-docs", validate=False))
    run.add(scs)
    run.rule = ("Rich generated documents in which doc comments (/** ... */ with a structured body: 0-2 paragraphs x 1-2 lines x "
                "1-4 words, 0-2 @tag clauses; one-line, starred multi-line and compact decoration; LF or CRLF; ASCII, accented, CJK, "
                "kana, emoji and combining-mark words) are placed in front of items, members, enum elements and arguments and at "
                "arbitrary other gaps, optionally followed by ordinary block / line comments, with two doc comments in a row and "
                "doc comments belonging to the previous member arising from the random placement; AidlLayout.DocFor decides which "
                "piece documents which construct and DocText normalises the body; the trace spec compares the doc field of EVERY "
                "documentable node (also the ones that must have none). Non-trivial = distinct document in which some node carries "
                "documentation.")
    return judge(run, nt_has_doc, chunk_events=1500)


def nt_expected3(sc, evs):
    return any(e["ev"] == "add" and any(len(v) >= 3 for v in e.get("expected", [])) for e in evs)


@plan("C20")
def c20(run):
    q = run.tier == "quick"
    scs, _ = slot_scenarios(run, 2 if q else 3)
    run.add(scs)
    run.add(mutated_docs(run, 1500 if q else 30000))
    run.rule = ("Error points: every MC_Slots token string (see C03) - the specification's tree builder decides which tokens are "
                "unacceptable, so error points in every slot are reached - plus recovered errors inside token-mutated rich "
                "documents. For every syntax diagnostic the harness logs the expectation vector the generated parser handed to the "
                "formatter (hook) and the words of the message (maximal [A-Z_]+ runs and quoted strings, token text removed); the "
                "trace spec requires the set of terminal names in the message to equal the set in the vector. Non-trivial = "
                "distinct scenario with an expectation vector of at least 3 entries.")
    return judge(run, nt_expected3, chunk_events=3000)


VOCAB = {'"("', '")"', '","', '"-"', '"."', '";"', '"<"', '"="', '">"', '"["', '"]"', '"{"', '"}"',
         "ANNOTATION", "BOOLEAN", "CHAR_SEQUENCE", "CONST", "DIRECTION", "ENUM", "FLOAT", "IDENT", "IMPORT", "INTEGER",
         "INTERFACE", "LIST", "MAP", "ONEWAY", "PACKAGE", "PARCELABLE", "PRIMITIVE", "QUOTED_STRING",
         "RESERVED_KEYWORD", "STRING", "VOID"}


@matcher("c20_drop_penultimate")
def m_c20(kf, fail, sc, evs):
    """Known finding: for an expectation vector of n >= 3 entries the message names all but the entry at index n-2;
    nothing else may differ (nothing extra, nothing else missing, vectors and syntax diagnostics pair up 1:1)."""
    ev = next((e for e in evs if e.get("n") == fail["n"] and e["ev"] == "add"), None)
    if not ev or "pobs" not in ev:
        return False
    syn = [d for d in ev["pobs"]["diags"] if d.get("synt", d["tag"] == "syntax")]
    exp = ev.get("expected", [])
    if len(syn) != len(exp):
        return False
    seen_defect = False
    for d, v in zip(syn, exp):
        named = {w for w in d["words"] + d["quoted"] if w in VOCAB}
        if named == set(v):
            continue
        n = len(v)
        if n >= 3 and named == set(v[:n - 2] + v[n - 1:]):
            seen_defect = True
            continue
        return False
    return seen_defect


def nt_recovered(sc, evs):
    return any(e["ev"] == "add" and e.get("pobs", {}).get("has_tree") and e["pobs"]["diags"] for e in evs)


@plan("C14")
def c14(run):
    q = run.tier == "quick"
    scs, _ = slot_scenarios(run, 2 if q else 3, layouts=("spaces",) if q else ("spaces", "mixed"), mode="recover")
    run.add(scs)
    # random longer garbage (up to 12 tokens) in the same frames
    out, st, printed = C.run_model("MC_Slots", workers=4, timeout=600, wdir=run.wdir, env_extra={"DEPTH": "0", "SLOT": "all", "MODE": "recover"})
    frames = next(json.loads(s[7:]) for s in printed if s.startswith("FRAMES "))
    lex = next(json.loads(s[4:]) for s in printed if s.startswith("LEX "))
    for _ in range(600 if q else 20000):
        slot = run.rng.choice(sorted(frames))
        bad = {",", "{", "}"} if slot.startswith("re") else {";", "{", "}"}
        voc = [v for v in sorted(lex) if v not in bad]
        g = [lex[run.rng.choice(voc)] for _k in range(run.rng.randint(3, 12))]
        scs2 = recovery_scenario(frames[slot]["pre"], g, frames[slot]["suf"], run.rng, run.rng.choice(["spaces", "mixed"]), f"rnd-rec-{slot}")
        run.add([scs2])
    # garbage that opens an annotation parenthesis: `@A (` + every string of 1-2 further tokens (the terminator may be
    # taken for a parameter separator; recovery inside the parentheses must not swallow siblings)
    for slot in sorted(frames):
        bad = {",", "{", "}"} if slot.startswith("re") else {";", "{", "}"}
        voc = [v for v in sorted(lex) if v not in bad]
        tails = [[a] for a in voc] + ([[a, b] for a in voc for b in voc] if (not q or slot in ("re1", "ri1", "rp1")) else [])
        for t in tails:
            g = [lex["ANNOTATION"], lex["("]] + [lex[v] for v in t]
            run.add([recovery_scenario(frames[slot]["pre"], g, frames[slot]["suf"], run.rng, "spaces", f"annparen-rec-{slot}")])
    # garbage that looks like members: a complete member without its terminator followed by the start of another one
    # (the parser can resume without dropping a token: the Error must still be reported)
    imem = [["VOID", "IDENT", "(", ")"], ["PRIMITIVE", "IDENT", "(", "DIRECTION", "PRIMITIVE", "IDENT", ")"], ["CONST", "PRIMITIVE", "IDENT", "=", "INTEGER"],
            ["ONEWAY", "VOID", "IDENT", "(", ")", "=", "INTEGER"], ["IDENT", "IDENT"], ["PRIMITIVE", "IDENT"]]
    pmem = [["PRIMITIVE", "IDENT"], ["STRING", "IDENT", "=", "QUOTED_STRING"], ["CONST", "PRIMITIVE", "IDENT", "=", "INTEGER"], ["IDENT", "IDENT"],
            ["LIST", "<", "STRING", ">", "IDENT"]]
    emem = [["IDENT"], ["IDENT", "=", "INTEGER"], ["ANNOTATION", "IDENT"], ["IDENT", "=", "QUOTED_STRING"]]
    for slot in sorted(frames):
        pool = emem if slot.startswith("re") else (pmem if slot.startswith("rp") else imem)
        for a_ in pool:
            for b_ in pool:
                g = [lex[v] for v in a_ + b_]
                run.add([recovery_scenario(frames[slot]["pre"], g, frames[slot]["suf"], run.rng, "spaces", f"memberlike-rec-{slot}")])
                g3 = [lex[v] for v in a_ + b_ + a_]
                if not q:
                    run.add([recovery_scenario(frames[slot]["pre"], g3, frames[slot]["suf"], run.rng, "mixed", f"memberlike-rec-{slot}")])
    # three fixed instances of the recorded finding (so that it is reported in every tier)
    fr = frames["re1"]
    for g in ([lex["ANNOTATION"], lex["("], lex["IDENT"]], [lex["IDENT"], lex["="], lex["INTEGER"], lex["ANNOTATION"], lex["("], lex["IDENT"]],
              [lex["ANNOTATION"], lex["("], lex["IDENT"], lex["="], lex["INTEGER"]]):
        run.add([recovery_scenario(fr["pre"], g, fr["suf"], run.rng, "spaces", "fixed-rec-re1")])
    run.rule = ("TLC enumerates MC_Slots in 'recover' mode: 11 frames (interface / parcelable / enum bodies with 0-3 well-formed "
                "siblings before and after the slot) x every garbage member G up to length 2 (quick) / 3 (thorough) over the "
                "vocabulary without the item's terminators and braces, followed by its normal terminator; plus random garbage of "
                "3-12 tokens. The trace spec parses the document without the garbage member (siblings) and with it (fillings that "
                "happen to be members are not C14 cases) and demands: a tree; the member list with the members salvaged from inside "
                "the garbage removed equals the siblings, in order and unchanged; at least one Error; every syntax Error inside the "
                "extent of the garbage member (first garbage token .. terminator). Non-trivial = distinct scenario with a tree and "
                "at least one diagnostic.")
    return judge(run, nt_recovered, chunk_events=3000)


# --------------------------------------------------------------------------------------
# self-test: the binding is real - corrupt one logged field / drop one event and the trace spec must object
# --------------------------------------------------------------------------------------
def selftest():
    import copy
    T0[0] = time.time()
    C.build_harness()
    rng = random.Random(7)
    wdir = C.fresh_workdir("selftest")
    main = ("package p.q;\nimport p.q.B;\nimport zz.Unused;\n/** Doc of A */\ninterface A {\n"
            "  void f(in B b, int[] x, int y);\n  oneway void g(out String s);\n  const int K = 1;\n  List<Map<String,B[]>> h();\n}\n")
    other = "package p.q;\nparcelable B {\n  int x;\n}\n"
    g = D.RichGen(rng, maxdepth=2)
    toks = g.document("interface")
    pcs = D.layout(toks, rng, mode="spaces", docs=0.5, unicode_ws=False, nl="\n")
    bad = mutate_tokens(toks, rng, 2)
    pcs_bad = D.layout(bad, rng, mode="spaces")
    base = {"sid": "", "src": "selftest", "ops": [
        {"op": "new", "i": 1},
        {"op": "add", "i": 1, "id": "a", "text": main},
        {"op": "add", "i": 1, "id": "b", "text": other},
        {"op": "validate", "i": 1},
        {"op": "validate", "i": 1, "detail": "digest"},
        {"op": "walk", "i": 1, "id": "a", "filter": "all"},
        {"op": "finds", "i": 1, "id": "a", "filter": "all", "preds": [{"kind": "class", "c": "pkg"}, {"kind": "nth", "k": 4}]},
        {"op": "lookups", "i": 1, "id": "a", "filter": "all", "positions": [[1, 9], [2, 10], [6, 8], [50, 1]]},
        {"op": "roundtrip", "i": 1, "id": "a", "stage": "validated"},
        {"op": "add", "i": 1, "id": "d", "text": D.text_of(pcs), "pieces": pcs, "parsed": True},
        {"op": "add", "i": 1, "id": "e", "text": D.text_of(pcs_bad), "pieces": pcs_bad, "parsed": True},
        {"op": "remove", "i": 1, "id": "d"},
        {"op": "remove", "i": 1, "id": "e"},
        {"op": "validate", "i": 1, "detail": "digest"},
    ]}
    base["sid"] = "base"
    rec = recovery_scenario([D.T(x) for x in ("package", )] + [D.T("p", "IDENT"), D.T(";"), D.T("interface"), D.T("I", "IDENT"), D.T("{"),
                             D.T("void"), D.T("a", "IDENT"), D.T("("), D.T(")"), D.T(";")],
                            [D.T("("), D.T("int")], [D.T(";"), D.T("void"), D.T("b", "IDENT"), D.T("("), D.T(")"), D.T(";"), D.T("}")],
                            rng, "spaces", "selftest-rec")
    rec["sid"] = "rec"
    ctoks = [D.T("package"), D.T("p", "IDENT"), D.T(";"), D.T("import"), D.T("p", "IDENT"), D.T("."), D.T("IBinder", "IDENT"), D.T(";"),
             D.T("interface"), D.T("I", "IDENT"), D.T("{"),
             D.T("void"), D.T("f", "IDENT"), D.T("("), D.T(")"), D.T("="), D.T("0016777216", "INTEGER"), D.T(";"),
             D.T("IBinder", "IDENT"), D.T("g", "IDENT"), D.T("("), D.T(")"), D.T("="), D.T("5", "INTEGER"), D.T(";"), D.T("}")]
    codes = piece_scenario([("a", D.layout(ctoks, rng, mode="spaces", unicode_ws=False, nl="\n")),
                            ("b", D.layout([D.T("package"), D.T("p", "IDENT"), D.T(";"), D.T("parcelable"), D.T("IBinder", "IDENT"),
                                            D.T("{"), D.T("}")], rng, mode="spaces", unicode_ws=False, nl="\n"))], "selftest-codes")
    codes["sid"] = "codes"
    events = C.run_harness([base, rec, codes], wdir)
    ev_base = [e for e in events if e["sid"] == "base"]
    ev_rec = [e for e in events if e["sid"] == "rec"]
    ev_codes = [e for e in events if e["sid"] == "codes"]

    def find(evs, kind, nth=0):
        return [i for i, e in enumerate(evs) if e["ev"] == kind][nth]

    def obs_a(e):
        return next(o for o in e["obs"] if o["id"] == "a")

    corruptions = []

    def corr(name, prop, which, fn):
        corruptions.append((name, prop, which, fn))

    def c_rk(evs):
        o = obs_a(evs[find(evs, "validate")])
        n = next(n for n in o["nodes"] if n["c"] == "type" and n["rk"] and n["rk"][0] == "item")
        n["rk"] = ["item", "interface", n["rk"][2]]
    corr("resolved kind flipped", "C05", "base", c_rk)

    def c_drop_diag(tag, prop):
        def fn(evs):
            o = obs_a(evs[find(evs, "validate")])
            k = next(i for i, d in enumerate(o["diags"]) if d["tag"] == tag)
            del o["diags"][k]
        corr(f"diagnostic {tag} removed", prop, "base", fn)
    c_drop_diag("unresolved_import", "C06")
    c_drop_diag("missing_dir", "C07")
    c_drop_diag("oneway_dir", "C07")

    def c_dup_diag(evs):
        o = obs_a(evs[find(evs, "validate")])
        d = next(d for d in o["diags"] if d["tag"] == "missing_dir")
        o["diags"].append(copy.deepcopy(d))
    corr("diagnostic duplicated (and out of order)", "C07", "base", c_dup_diag)

    def c_swap(evs):
        o = obs_a(evs[find(evs, "validate")])
        o["diags"][0], o["diags"][-1] = o["diags"][-1], o["diags"][0]
    corr("diagnostics swapped", "C11", "base", c_swap)

    def c_keys(evs):
        evs[find(evs, "validate")]["keys"].pop()
    corr("a result key missing", "C01", "base", c_keys)

    def c_panic(evs):
        e = evs[find(evs, "add", 1)]
        e["out"] = "panic"
    corr("a call that panicked", "C01", "base", c_panic)

    def c_dig(evs):
        e = evs[find(evs, "validate", 1)]
        e["dig"]["a"] = "0" * 16
        e["sdig"]["a"] = "0" * 16
    corr("second validation differs", "C12", "base", c_dig)

    def c_walk(evs):
        e = evs[find(evs, "walk")]
        e["syms"][3], e["syms"][4] = e["syms"][4], e["syms"][3]
    corr("walk order swapped", "C15", "base", c_walk)

    def c_find(evs):
        evs[find(evs, "finds")]["found"][0] = []
    corr("package not found", "C15", "base", c_find)

    def c_lookup(evs):
        e = evs[find(evs, "lookups")]
        e["found"][0] = []
    corr("lookup answer removed", "C16", "base", c_lookup)

    def c_qname(evs):
        e = evs[find(evs, "walk")]
        s = next(x for x in e["syms"] if x["c"] == "item")
        s["qname"] = ["p.qA"]
    corr("qualified name of the item", "C17", "base", c_qname)

    def c_rt(evs):
        e = evs[find(evs, "roundtrip")]
        m = next(n for n in e["after"] if n["c"] == "method" and n["ow"])
        m["ow"] = False
    corr("round trip lost a oneway flag", "C19", "base", c_rt)

    def c_sym(evs):
        e = evs[find(evs, "add", 2)]
        n = next(n for n in e["pobs"]["nodes"] if n["c"] in ("method", "const"))
        n["sym"][0] += 1
        n["sym"][3] += 1
    corr("name range shifted by one", "C04", "base", c_sym)

    def c_name(evs):
        e = evs[find(evs, "add", 2)]
        n = next(n for n in e["pobs"]["nodes"] if n["c"] in ("method", "const"))
        n["n"] = n["n"] + "x"
    corr("member name altered", "C02", "base", c_name)

    def c_doc(evs):
        e = evs[find(evs, "add", 2)]
        n = next((n for n in e["pobs"]["nodes"] if n["doc"]), None) or e["pobs"]["nodes"][-1]
        n["doc"] = ["something else"] if not n["doc"] else [n["doc"][0] + " x"]
    corr("documentation altered", "C18", "base", c_doc)

    def c_verdict(evs):
        e = evs[find(evs, "add", 3)]
        e["pobs"]["diags"] = []
        e["expected"] = []
    corr("malformed document reported clean", "C03", "base", c_verdict)

    def c_words(evs):
        e = evs[find(evs, "add", 3)]
        d = next(d for d in e["pobs"]["diags"] if d["tag"] == "syntax" and (d["words"] or d["quoted"]))
        d["words"].append("VOID" if "VOID" not in d["words"] else "ENUM")
    corr("message names a token outside the expectation set", "C20", "base", c_words)

    def c_drop_event(evs):
        del evs[find(evs, "remove", 1)]
    corr("one remove event dropped from the trace", "C01", "base", c_drop_event)

    def c_sibling(evs):
        e = evs[find(evs, "add")]
        ns = e["pobs"]["nodes"]
        k = next(i for i, n in enumerate(ns) if n["c"] == "method" and n["n"] == "b")
        del ns[k:k + 2]
    corr("a sibling lost by recovery", "C14", "rec", c_sibling)

    def c_outside(evs):
        e = evs[find(evs, "add")]
        d = next(d for d in e["pobs"]["diags"] if d["tag"] == "syntax")
        d["r"] = [0, 7, 1, 1, 1, 8]
    corr("syntax Error outside the malformed member", "C14", "rec", c_outside)

    def c_code(evs):
        e = evs[find(evs, "validate")]
        m = next(n for n in obs_a(e)["nodes"] if n["c"] == "method" and n["n"] == "f")
        m["a"] = ""
    corr("a method's explicit code lost after validation", "C09", "codes", c_code)

    def c_unused(evs):
        # the import of the project's own p.IBinder is used by g's return type; a reference classified as the built-in
        # (what a 'built-ins first' resolver reports) together with the matching 'unused import' Warning must not pass
        e = evs[find(evs, "validate")]
        o = obs_a(e)
        imp = next(n for n in o["nodes"] if n["c"] == "imp")
        t = next(n for n in o["nodes"] if n["c"] == "type" and n["n"] == "IBinder")
        t["rk"] = ["android", "IBinder"]
        o["diags"].append({"sev": "W", "r": imp["sym"], "tag": "unused_import", "msg": "Unused import `p.IBinder`", "ctx": "", "hint": "",
                           "an": [], "rel": [], "stage": "valid", "words": [], "quoted": [], "synt": False})
        o["diags"].sort(key=lambda d: (d["r"][2], d["r"][3]))
    corr("reference classified as a built-in although the file imports an item of that name, with the matching 'unused' Warning", "C06", "codes", c_unused)

    trace = list(ev_base) + list(ev_rec) + list(ev_codes)
    wanted = []
    for k, (name, prop, which, fn) in enumerate(corruptions):
        evs = copy.deepcopy({"base": ev_base, "rec": ev_rec, "codes": ev_codes}[which])
        sid = f"corrupt-{k}"
        for e in evs:
            e["sid"] = sid
        fn(evs)
        trace += evs
        wanted.append((sid, prop, name))
    fails, _ = C.validate_trace(trace, wdir, chunk_events=10 ** 9)
    shutil.rmtree(wdir, ignore_errors=True)
    clean = [f for f in fails if f["sid"] in ("base", "rec", "codes") and f["prop"] != "C20"]
    rc = 0
    if clean:
        print("selftest: the uncorrupted trace was NOT accepted:", clean[:3])
        rc = 2
    bysid = by_sid(trace)
    for sid, prop, name in wanted:
        hit = [f for f in fails if f["sid"] == sid and f["prop"] == prop]
        # a known finding must not excuse the corrupted event
        hit = [f for f in hit if not match_known(prop, f, None, bysid.get(sid, []))]
        print(f"  {'rejected' if hit else 'ACCEPTED (bad)'}  [{prop}] {name}" + (f" -> {hit[0]['why']}" if hit else ""))
        if not hit:
            print("    FAIL lines of that scenario:", sorted({(f["prop"], f["why"]) for f in fails if f["sid"] == sid}))
            rc = 2
    # the hang / abort plumbing: a call that never returns or kills the process is an event, and later scenarios still run
    os.environ["VERIF_OP_TIMEOUT"] = "2"
    wdir = C.fresh_workdir("selftest2")
    ok_ops = [{"op": "new", "i": 1}, {"op": "add", "i": 1, "id": "a", "text": "package p; enum E {A}"}, {"op": "validate", "i": 1, "detail": "digest"}]
    scs = [{"sid": "h0", "ops": copy.deepcopy(ok_ops)},
           {"sid": "h1", "ops": [{"op": "new", "i": 1}, {"op": "sleep", "i": 1, "ms": 6000}, {"op": "validate", "i": 1, "detail": "digest"}]},
           {"sid": "h2", "ops": [{"op": "new", "i": 1}, {"op": "abort", "i": 1}, {"op": "validate", "i": 1, "detail": "digest"}]},
           {"sid": "h3", "ops": copy.deepcopy(ok_ops)}]
    evs = C.run_harness(scs, wdir, nproc=1)
    fl, _ = C.validate_trace(evs, wdir)
    shutil.rmtree(wdir, ignore_errors=True)
    os.environ.pop("VERIF_OP_TIMEOUT", None)
    for sid, what in (("h1", "timeout"), ("h2", "abort")):
        hit = [f for f in fl if f["sid"] == sid and f["prop"] == "C01" and what in f["why"]]
        print(f"  {'rejected' if hit else 'ACCEPTED (bad)'}  [C01] a call that ends in {what}")
        rc = rc if hit else 2
    if [f for f in fl if f["sid"] in ("h0", "h3")] or not any(e["sid"] == "h3" and e["ev"] == "validate" for e in evs):
        print("  scenarios around the hang / abort were not executed or not accepted")
        rc = 2
    print("selftest ok: every corrupted trace was rejected at the corrupted event" if rc == 0 else "selftest FAILED")
    return rc


@matcher("c14_unclosed_annotation_paren_in_enum")
def m_c14(kf, fail, sc, evs):
    """Known finding: in an ENUM body, a malformed element that opens an annotation parenthesis and does not close it
    (`@A ( x` + `,`): the terminating `,` is read as the separator of annotation parameters, so the parser only notices
    at a later token - the Error lies after the terminator and elements after it can be swallowed. Nothing else is excused."""
    ev = next((e for e in evs if e.get("n") == fail["n"] and e["ev"] == "add" and "garbage" in e), None)
    if not ev or "pieces" not in ev:
        return False
    pcs = ev["pieces"]
    g1, g2 = ev["garbage"]
    toks_before = [p[0] for p in pcs[:g1 - 1] if p[0] not in ("WS", "LCOM", "BCOM", "DOC")]
    if "ENUM" not in toks_before or "{" not in toks_before:
        return False
    g = [p[0] for p in pcs[g1 - 1:g2 - 1] if p[0] not in ("WS", "LCOM", "BCOM", "DOC")]
    # the garbage must END in an open annotation parenthesis holding exactly one complete parameter, so that the
    # terminating `,` is a legal parameter separator: ... ANNOTATION "(" IDENT   or   ... ANNOTATION "(" IDENT "=" literal
    lits = ("INTEGER", "FLOAT", "QUOTED_STRING", "BOOLEAN")
    if len(g) >= 3 and g[-3:-1] == ["ANNOTATION", "("] and g[-1] == "IDENT":
        return True
    if len(g) >= 5 and g[-5:-3] == ["ANNOTATION", "("] and g[-3] == "IDENT" and g[-2] == "=" and g[-1] in lits:
        return True
    return False
