#!/usr/bin/env python3
"""debug helper: run a replay file's scenario and print a summary of the events"""
import json, sys, os
sys.path.insert(0, os.path.dirname(os.path.abspath(__file__)))
import common as C
rp = json.load(open(sys.argv[1]))
sc = rp["scenario"]
w = C.fresh_workdir("dbg")
evs = C.run_harness([sc], w)
for e in evs:
    if e["ev"] in ("Reset",): continue
    op = sc["ops"][e["n"]]
    line = f'{e["n"]:3} {e["ev"]:9} out={e["out"]}'
    if e["out"] != "ok":
        line += f' panic={e.get("panic","")[:150]!r} text={op.get("text","")[:200]!r}'
    if len(sys.argv) > 2 and e["ev"] == "validate" and "obs" in e:
        for o in e["obs"]:
            line += f'\n      [{o["id"]}] tree={o["has_tree"]}'
            for d in o["diags"]:
                line += f'\n         {d["sev"]} {d["tag"]:16} {d["r"]} {d["stage"]} {d["msg"][:60]!r}'
            if len(sys.argv) > 3:
                for n in o["nodes"]:
                    line += f'\n         node {"/".join(n["p"]):24} {n["c"]:6} {n["n"]:10} a={n["a"]} rk={n["rk"]} sym={n["sym"]} full={n["full"]}'
    print(line)
print(rp["fails"][:3])
