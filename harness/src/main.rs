// Conformance harness: executes scenarios (sequences of API calls) against the real
// aidl-parser library built from /repo's working tree and logs one NDJSON event per call.
// It computes NO expectations: it only executes and projects. All judging is done by TLC.
//
// usage: harness run <scenarios.ndjson> <trace.ndjson> <scratch-dir>
use aidl_parser::ast;
use aidl_parser::diagnostic::{Diagnostic, DiagnosticKind};
use aidl_parser::symbol::Symbol;
use aidl_parser::traverse::{self, SymbolFilter};
use aidl_parser::{ParseFileResult, Parser};
use serde_json::{json, Map, Value};
use std::collections::{BTreeMap, HashMap};
use std::hash::{Hash, Hasher};
use std::io::{BufRead, BufWriter, Write};
use std::panic::{catch_unwind, AssertUnwindSafe};
use std::path::{Path, PathBuf};
use std::sync::atomic::{AtomicU64, Ordering};
use std::sync::Arc;

type P = Parser<PathBuf>;
type Res = HashMap<PathBuf, ParseFileResult<PathBuf>>;

// ---------------------------------------------------------------------------------------
// Projection of trees: flat pre-order node list with uniform records
// ---------------------------------------------------------------------------------------

fn rng(r: &ast::Range) -> Value {
    json!([
        r.start.offset,
        r.end.offset,
        r.start.line_col.0,
        r.start.line_col.1,
        r.end.line_col.0,
        r.end.line_col.1
    ])
}

fn esc(s: &str) -> Value {
    Value::String(s.to_owned())
}

#[derive(Default)]
struct Proj {
    nodes: Vec<Value>,
    // (class tag, address) -> index in nodes
    addr: HashMap<(u8, usize), usize>,
}

const T_PKG: u8 = 1;
const T_IMP: u8 = 2;
const T_ITEM: u8 = 3;
const T_METHOD: u8 = 4;
const T_ARG: u8 = 5;
const T_CONST: u8 = 6;
const T_FIELD: u8 = 7;
const T_ELEM: u8 = 8;
const T_TYPE: u8 = 9;

fn a<T>(r: &T) -> usize {
    r as *const T as usize
}

struct NodeB {
    p: Vec<String>,
    c: &'static str,
    n: String,
    a: String,
    b: String,
    ann: Value,
    ow: bool,
    rk: Value,
    doc: Value,
    sym: Value,
    full: Value,
    dir: Value,
    owr: Value,
    code: Value,
}

impl NodeB {
    fn new(p: &[String], c: &'static str, n: &str) -> Self {
        NodeB {
            p: p.to_vec(),
            c,
            n: n.to_owned(),
            a: String::new(),
            b: String::new(),
            ann: json!([]),
            ow: false,
            rk: json!([]),
            doc: json!([]),
            sym: json!([]),
            full: json!([]),
            dir: json!([]),
            owr: json!([]),
            code: json!([]),
        }
    }
    fn done(self) -> Value {
        json!({"p": self.p, "c": self.c, "n": self.n, "a": self.a, "b": self.b, "ann": self.ann,
               "ow": self.ow, "rk": self.rk, "doc": self.doc,
               "sym": self.sym, "full": self.full, "dir": self.dir, "owr": self.owr, "code": self.code})
    }
}

fn anns(v: &[ast::Annotation]) -> Value {
    Value::Array(
        v.iter()
            .map(|an| {
                let kv: BTreeMap<&String, &Option<String>> = an.key_values.iter().collect();
                let kvs: Vec<Value> = kv
                    .into_iter()
                    .map(|(k, v)| match v {
                        Some(v) => json!([k, [v]]),
                        None => json!([k, []]),
                    })
                    .collect();
                json!({"n": an.name, "kv": kvs})
            })
            .collect(),
    )
}

fn doc(d: &Option<String>) -> Value {
    match d {
        Some(s) => json!([s]),
        None => json!([]),
    }
}

fn sub(p: &[String], s: String) -> Vec<String> {
    let mut v = p.to_vec();
    v.push(s);
    v
}

impl Proj {
    fn push(&mut self, tag: u8, addr: usize, nb: NodeB) {
        self.addr.insert((tag, addr), self.nodes.len());
        self.nodes.push(nb.done());
    }

    fn typ(&mut self, t: &ast::Type, p: &[String]) {
        let (k, rk) = match &t.kind {
            ast::TypeKind::Primitive => ("prim", json!([])),
            ast::TypeKind::Void => ("void", json!([])),
            ast::TypeKind::Array => ("array", json!([])),
            ast::TypeKind::Map => ("map", json!([])),
            ast::TypeKind::List => ("list", json!([])),
            ast::TypeKind::String => ("string", json!([])),
            ast::TypeKind::CharSequence => ("charseq", json!([])),
            ast::TypeKind::AndroidType(x) => ("named", json!(["android", x.get_name()])),
            ast::TypeKind::ResolvedItem(key, ik) => (
                "named",
                json!([
                    "item",
                    match ik {
                        ast::ResolvedItemKind::Interface => "interface",
                        ast::ResolvedItemKind::Parcelable => "parcelable",
                        ast::ResolvedItemKind::Enum => "enum",
                        ast::ResolvedItemKind::ForwardDeclaredParcelable => "fwd",
                        ast::ResolvedItemKind::UnknownImport => "unknown",
                    },
                    key
                ]),
            ),
            ast::TypeKind::Unresolved => ("named", json!(["unresolved"])),
        };
        let mut nb = NodeB::new(p, "type", &t.name);
        nb.a = k.to_owned();
        nb.rk = rk;
        nb.sym = rng(&t.symbol_range);
        nb.full = rng(&t.full_range);
        self.push(T_TYPE, a(t), nb);
        for (i, g) in t.generic_types.iter().enumerate() {
            self.typ(g, &sub(p, format!("g{}", i + 1)));
        }
    }

    fn konst(&mut self, c: &ast::Const, p: &[String]) {
        let mut nb = NodeB::new(p, "const", &c.name);
        nb.a = c.value.clone();
        nb.ann = anns(&c.annotations);
        nb.doc = doc(&c.doc);
        nb.sym = rng(&c.symbol_range);
        nb.full = rng(&c.full_range);
        self.push(T_CONST, a(c), nb);
        self.typ(&c.const_type, &sub(p, "t".into()));
    }

    fn aidl(&mut self, f: &ast::Aidl) {
        let mut nb = NodeB::new(&["pkg".to_owned()], "pkg", &f.package.name);
        nb.sym = rng(&f.package.symbol_range);
        nb.full = rng(&f.package.full_range);
        self.push(T_PKG, a(&f.package), nb);
        for (i, im) in f.imports.iter().enumerate() {
            let mut nb = NodeB::new(&[format!("i{}", i + 1)], "imp", &im.name);
            nb.a = im.path.clone();
            nb.sym = rng(&im.symbol_range);
            nb.full = rng(&im.full_range);
            self.push(T_IMP, a(im), nb);
        }
        for (i, im) in f.declared_parcelables.iter().enumerate() {
            let mut nb = NodeB::new(&[format!("f{}", i + 1)], "fwd", &im.name);
            nb.a = im.path.clone();
            nb.sym = rng(&im.symbol_range);
            nb.full = rng(&im.full_range);
            self.push(T_IMP, a(im), nb);
        }
        let ip = vec!["item".to_owned()];
        match &f.item {
            ast::Item::Interface(i) => {
                let mut nb = NodeB::new(&ip, "item", &i.name);
                nb.a = "interface".into();
                nb.ow = i.oneway;
                nb.ann = anns(&i.annotations);
                nb.doc = doc(&i.doc);
                nb.sym = rng(&i.symbol_range);
                nb.full = rng(&i.full_range);
                self.push(T_ITEM, a(i), nb);
                for (k, el) in i.elements.iter().enumerate() {
                    let mp = sub(&ip, format!("m{}", k + 1));
                    match el {
                        ast::InterfaceElement::Const(c) => self.konst(c, &mp),
                        ast::InterfaceElement::Method(m) => {
                            let mut nb = NodeB::new(&mp, "method", &m.name);
                            nb.a = m.transact_code.map(|c| c.to_string()).unwrap_or_default();
                            nb.ow = m.oneway;
                            nb.ann = anns(&m.annotations);
                            nb.doc = doc(&m.doc);
                            nb.sym = rng(&m.symbol_range);
                            nb.full = rng(&m.full_range);
                            nb.owr = rng(&m.oneway_range);
                            nb.code = rng(&m.transact_code_range);
                            self.push(T_METHOD, a(m), nb);
                            self.typ(&m.return_type, &sub(&mp, "t".into()));
                            for (j, ar) in m.args.iter().enumerate() {
                                let ap = sub(&mp, format!("a{}", j + 1));
                                let mut nb =
                                    NodeB::new(&ap, "arg", ar.name.as_deref().unwrap_or(""));
                                nb.b = if ar.name.is_some() { "n".into() } else { String::new() };
                                match &ar.direction {
                                    ast::Direction::In(r) => {
                                        nb.a = "in".into();
                                        nb.dir = rng(r)
                                    }
                                    ast::Direction::Out(r) => {
                                        nb.a = "out".into();
                                        nb.dir = rng(r)
                                    }
                                    ast::Direction::InOut(r) => {
                                        nb.a = "inout".into();
                                        nb.dir = rng(r)
                                    }
                                    ast::Direction::Unspecified => {}
                                }
                                nb.ann = anns(&ar.annotations);
                                nb.doc = doc(&ar.doc);
                                nb.sym = rng(&ar.symbol_range);
                                nb.full = rng(&ar.full_range);
                                self.push(T_ARG, a(ar), nb);
                                self.typ(&ar.arg_type, &sub(&ap, "t".into()));
                            }
                        }
                    }
                }
            }
            ast::Item::Parcelable(pc) => {
                let mut nb = NodeB::new(&ip, "item", &pc.name);
                nb.a = "parcelable".into();
                nb.ann = anns(&pc.annotations);
                nb.doc = doc(&pc.doc);
                nb.sym = rng(&pc.symbol_range);
                nb.full = rng(&pc.full_range);
                self.push(T_ITEM, a(pc), nb);
                for (k, el) in pc.elements.iter().enumerate() {
                    let mp = sub(&ip, format!("m{}", k + 1));
                    match el {
                        ast::ParcelableElement::Const(c) => self.konst(c, &mp),
                        ast::ParcelableElement::Field(fi) => {
                            let mut nb = NodeB::new(&mp, "field", &fi.name);
                            nb.a = fi.value.clone().unwrap_or_default();
                            nb.b = if fi.value.is_some() { "v".into() } else { String::new() };
                            nb.ann = anns(&fi.annotations);
                            nb.doc = doc(&fi.doc);
                            nb.sym = rng(&fi.symbol_range);
                            nb.full = rng(&fi.full_range);
                            self.push(T_FIELD, a(fi), nb);
                            self.typ(&fi.field_type, &sub(&mp, "t".into()));
                        }
                    }
                }
            }
            ast::Item::Enum(e) => {
                let mut nb = NodeB::new(&ip, "item", &e.name);
                nb.a = "enum".into();
                nb.ann = anns(&e.annotations);
                nb.doc = doc(&e.doc);
                nb.sym = rng(&e.symbol_range);
                nb.full = rng(&e.full_range);
                self.push(T_ITEM, a(e), nb);
                for (k, el) in e.elements.iter().enumerate() {
                    let mp = sub(&ip, format!("m{}", k + 1));
                    let mut nb = NodeB::new(&mp, "elem", &el.name);
                    nb.a = el.value.clone().unwrap_or_default();
                    nb.b = if el.value.is_some() { "v".into() } else { String::new() };
                    nb.doc = doc(&el.doc);
                    nb.sym = rng(&el.symbol_range);
                    nb.full = rng(&el.full_range);
                    self.push(T_ELEM, a(el), nb);
                }
            }
        }
    }
}

// ---------------------------------------------------------------------------------------
// Diagnostics
// ---------------------------------------------------------------------------------------

// Keyword table: wording -> tag. Unknown wording gives "?" (never an alarm by itself).
fn tag_of(d: &Diagnostic) -> &'static str {
    let m = format!(
        "{} | {}",
        d.message.to_lowercase(),
        d.context_message.as_deref().unwrap_or("").to_lowercase()
    );
    let has = |s: &str| m.contains(s);
    if has("invalid token") {
        "syntax"
    } else if has("unrecognized") || has("extra token") || has("unexpected") || has("expected ") {
        "syntax"
    } else if has("transact code") {
        "code_overflow"
    } else if has("unknown type") {
        "unknown_type"
    } else if has("duplicated import") && !has("method id") {
        "dup_import"
    } else if has("unresolved import") {
        "unresolved_import"
    } else if has("unused import") {
        "unused_import"
    } else if has("conflict") {
        "fwd_conflict"
    } else if has("multiple parcelable") || has("duplicated declaration") {
        "fwd_repeat"
    } else if has("unused declared") {
        "fwd_unused"
    } else if has("usage of declared") {
        "fwd_used"
    } else if has("non-generic list") {
        "raw_list"
    } else if has("non-generic map") {
        "raw_map"
    } else if has("multi-dimensional") {
        "multi_dim"
    } else if has("array element") {
        "bad_array_elem"
    } else if has("list element") {
        "bad_list_elem"
    } else if has("map key") {
        "bad_map_key"
    } else if has("map value") {
        "bad_map_value"
    } else if has("redundant oneway") || has("does not need to be marked as oneway") {
        "redundant_oneway"
    } else if has("return type") {
        "oneway_return"
    } else if has("missing direction") {
        "missing_dir"
    } else if has("invalid argument") {
        "bad_arg"
    } else if has("invalid direction") {
        let h = d.hint.as_deref().unwrap_or("").to_lowercase();
        if h.contains("oneway") {
            "oneway_dir"
        } else {
            "bad_dir"
        }
    } else if has("duplicated method name") {
        "dup_method_name"
    } else if has("mixed") {
        "mixed_ids"
    } else if has("duplicated method id") {
        "dup_method_id"
    } else {
        "?"
    }
}

fn anchors(r: &Value, nodes: &[Value]) -> Value {
    let mut out = Vec::new();
    for n in nodes {
        for role in ["sym", "full", "dir", "owr", "code"] {
            if &n[role] == r {
                out.push(json!([n["p"], role]));
            }
        }
        // derived role: empty range at the start of an argument's type name
        if n["c"] == "type" {
            let s = &n["sym"];
            if s.is_array() && s.as_array().map(|x| x.len()) == Some(6) {
                let ts = json!([s[0], s[0], s[2], s[3], s[2], s[3]]);
                if &ts == r {
                    out.push(json!([n["p"], "typestart"]));
                }
            }
        }
    }
    Value::Array(out)
}

fn diag(d: &Diagnostic, nodes: &[Value], stage: &str) -> Value {
    let r = rng(&d.range);
    let rel: Vec<Value> = d
        .related_infos
        .iter()
        .map(|ri| {
            let rr = rng(&ri.range);
            json!({"an": anchors(&rr, nodes), "r": rr, "msg": ri.message})
        })
        .collect();
    let (words, quoted) = message_words(&d.message);
    json!({
        "words": words,
        "quoted": quoted,
        "sev": match d.kind { DiagnosticKind::Error => "E", DiagnosticKind::Warning => "W" },
        "an": anchors(&r, nodes),
        "r": r,
        "tag": tag_of(d),
        "msg": d.message,
        "ctx": match &d.context_message { Some(x) => json!([x]), None => json!([]) },
        "hint": match &d.hint { Some(x) => json!([x]), None => json!([]) },
        "rel": rel,
        "stage": stage,
    })
}

fn project_result(fr: &ParseFileResult<PathBuf>, parse_stage: Option<&ParseFileResult<PathBuf>>, idname_: &str, scratch: &Path, locs: Option<&[(usize, usize)]>) -> (Value, Proj) {
    let mut pr = Proj::default();
    if let Some(f) = &fr.ast {
        pr.aidl(f);
    }
    // classify each diagnostic as parse-stage or validation-stage by multiset matching
    let mut pending: Vec<&Diagnostic> = parse_stage.map(|p| p.diagnostics.iter().collect()).unwrap_or_default();
    let all_parse = parse_stage.is_none();
    let mut locs_pending: Vec<(usize, usize)> = locs.map(|l| l.to_vec()).unwrap_or_default();
    let mut ds = Vec::new();
    for d in &fr.diagnostics {
        let st = if all_parse {
            "parse"
        } else if let Some(pos) = pending.iter().position(|x| *x == d) {
            pending.remove(pos);
            "parse"
        } else {
            "valid"
        };
        let mut dv = diag(d, &pr.nodes, st);
        // did this diagnostic come out of the parser's error formatter (hook: recorded locations, in order)?
        let mut synt = false;
        if let Some(_l) = locs {
            if let Some(pos) = locs_pending.iter().position(|x| *x == (d.range.start.offset, d.range.end.offset)) {
                locs_pending.remove(pos);
                synt = true;
            }
        }
        // ... or does its wording say so (a diagnostic whose range was moved away from the error location is still a
        // syntax diagnostic; one whose wording AND range were both changed is not recognised any more)
        if locs.is_some() && dv["tag"] == "syntax" {
            synt = true;
        }
        dv["synt"] = json!(synt);
        ds.push(dv);
    }
    // what the parse stage stored for each method's own `oneway` keyword (before propagation)
    let mut pows = Vec::new();
    if let Some(ps) = parse_stage {
        if let Some(f) = &ps.ast {
            if let ast::Item::Interface(i) = &f.item {
                for (k, el) in i.elements.iter().enumerate() {
                    if let ast::InterfaceElement::Method(m) = el {
                        pows.push(json!([["item", format!("m{}", k + 1)], m.oneway]));
                    }
                }
            }
        }
    }
    // every identifier segment stored in the tree (user-chosen names)
    let mut idents: Vec<String> = Vec::new();
    if let Some(f) = &fr.ast {
        collect_idents(f, &mut idents);
    }
    let v = json!({
        "idents": idents,
        "id": idname_,
        "pows": pows,
        "rid": idname(scratch, &fr.id),
        "has_tree": fr.ast.is_some(),
        "nodes": pr.nodes,
        "diags": ds,
        "dropped": pending.len(),
    });
    (v, pr)
}

fn push_segs(s: &str, out: &mut Vec<String>) {
    for seg in s.split('.') {
        out.push(seg.to_owned());
    }
}

fn collect_type_idents(t: &ast::Type, out: &mut Vec<String>) {
    match t.kind {
        ast::TypeKind::AndroidType(_) | ast::TypeKind::ResolvedItem(..) | ast::TypeKind::Unresolved => push_segs(&t.name, out),
        _ => {}
    }
    for g in &t.generic_types {
        collect_type_idents(g, out);
    }
}

fn collect_ann_idents(v: &[ast::Annotation], out: &mut Vec<String>) {
    for a in v {
        for k in a.key_values.keys() {
            out.push(k.clone());
        }
    }
}

fn collect_idents(f: &ast::Aidl, out: &mut Vec<String>) {
    push_segs(&f.package.name, out);
    for i in f.imports.iter().chain(f.declared_parcelables.iter()) {
        if !i.path.is_empty() {
            push_segs(&i.path, out);
        }
        out.push(i.name.clone());
    }
    match &f.item {
        ast::Item::Interface(i) => {
            out.push(i.name.clone());
            collect_ann_idents(&i.annotations, out);
            for el in &i.elements {
                match el {
                    ast::InterfaceElement::Const(c) => {
                        out.push(c.name.clone());
                        collect_ann_idents(&c.annotations, out);
                        collect_type_idents(&c.const_type, out);
                    }
                    ast::InterfaceElement::Method(m) => {
                        out.push(m.name.clone());
                        collect_ann_idents(&m.annotations, out);
                        collect_type_idents(&m.return_type, out);
                        for a in &m.args {
                            if let Some(n) = &a.name {
                                out.push(n.clone());
                            }
                            collect_ann_idents(&a.annotations, out);
                            collect_type_idents(&a.arg_type, out);
                        }
                    }
                }
            }
        }
        ast::Item::Parcelable(p) => {
            out.push(p.name.clone());
            collect_ann_idents(&p.annotations, out);
            for el in &p.elements {
                match el {
                    ast::ParcelableElement::Const(c) => {
                        out.push(c.name.clone());
                        collect_ann_idents(&c.annotations, out);
                        collect_type_idents(&c.const_type, out);
                    }
                    ast::ParcelableElement::Field(fi) => {
                        out.push(fi.name.clone());
                        collect_ann_idents(&fi.annotations, out);
                        collect_type_idents(&fi.field_type, out);
                    }
                }
            }
        }
        ast::Item::Enum(e) => {
            out.push(e.name.clone());
            collect_ann_idents(&e.annotations, out);
            for el in &e.elements {
                out.push(el.name.clone());
            }
        }
    }
}

// words of a syntax message: maximal [A-Z_]+ runs (length >= 2) and double-quoted strings, after
// removing the back-quoted token text; which of them are terminal names is decided by the specification
fn message_words(msg: &str) -> (Vec<String>, Vec<String>) {
    let mut m = String::new();
    let mut in_bq = false;
    for c in msg.chars() {
        if c == '`' {
            in_bq = !in_bq;
            continue;
        }
        if !in_bq {
            m.push(c);
        }
    }
    let mut words = Vec::new();
    let mut quoted = Vec::new();
    let cs: Vec<char> = m.chars().collect();
    let mut i = 0;
    while i < cs.len() {
        if cs[i] == '"' {
            if let Some(j) = cs[i + 1..].iter().position(|c| *c == '"') {
                if j > 0 {
                    quoted.push(cs[i..=i + 1 + j].iter().collect::<String>());
                    i += j + 2;
                    continue;
                }
                // `"""`-like: the quote itself is the token
                if i + 2 < cs.len() && cs[i + 2] == '"' {
                    quoted.push("\"\"\"".to_owned());
                    i += 3;
                    continue;
                }
            }
            i += 1;
        } else if cs[i].is_ascii_uppercase() || cs[i] == '_' {
            let st = i;
            while i < cs.len() && (cs[i].is_ascii_uppercase() || cs[i] == '_') {
                i += 1;
            }
            let before_ok = st == 0 || !(cs[st - 1].is_ascii_alphanumeric());
            let after_ok = i >= cs.len() || !(cs[i].is_ascii_alphanumeric());
            if i - st >= 2 && before_ok && after_ok {
                words.push(cs[st..i].iter().collect::<String>());
            }
        } else {
            i += 1;
        }
    }
    (words, quoted)
}

fn digest(v: &Value) -> String {
    let s = serde_json::to_string(v).unwrap();
    #[allow(deprecated)]
    let mut h = std::hash::SipHasher::new();
    s.hash(&mut h);
    format!("{:016x}", h.finish())
}

// ---------------------------------------------------------------------------------------
// Symbols
// ---------------------------------------------------------------------------------------

fn sym_addr(s: &Symbol) -> (u8, usize) {
    match s {
        Symbol::Package(p) => (T_PKG, a(*p)),
        Symbol::Import(i) => (T_IMP, a(*i)),
        Symbol::Interface(i, _) => (T_ITEM, a(*i)),
        Symbol::Parcelable(p, _) => (T_ITEM, a(*p)),
        Symbol::Enum(e, _) => (T_ITEM, a(*e)),
        Symbol::Method(m, _) => (T_METHOD, a(*m)),
        Symbol::Arg(x, _) => (T_ARG, a(*x)),
        Symbol::Const(c, _) => (T_CONST, a(*c)),
        Symbol::Field(f, _) => (T_FIELD, a(*f)),
        Symbol::EnumElement(e, _) => (T_ELEM, a(*e)),
        Symbol::Type(t) => (T_TYPE, a(*t)),
    }
}

fn sym_class(s: &Symbol) -> &'static str {
    match s {
        Symbol::Package(_) => "pkg",
        Symbol::Import(_) => "imp",
        Symbol::Interface(..) | Symbol::Parcelable(..) | Symbol::Enum(..) => "item",
        Symbol::Method(..) => "method",
        Symbol::Arg(..) => "arg",
        Symbol::Const(..) => "const",
        Symbol::Field(..) => "field",
        Symbol::EnumElement(..) => "elem",
        Symbol::Type(_) => "type",
    }
}

fn opt(s: Option<String>) -> Value {
    match s {
        Some(s) => json!([s]),
        None => json!([]),
    }
}

fn sym_path(s: &Symbol, pr: &Proj) -> Value {
    match pr.addr.get(&sym_addr(s)) {
        Some(ix) => pr.nodes[*ix]["p"].clone(),
        None => json!(["?unknown-node"]),
    }
}

fn sym_rec(s: &Symbol, pr: &Proj) -> Value {
    json!({
        "p": sym_path(s, pr),
        "c": sym_class(s),
        "name": opt(s.get_name()),
        "qname": opt(s.get_qualified_name()),
        "details": opt(s.get_details()),
        "sig": s.get_signature(),
        "sym": rng(s.get_range()),
        "full": rng(s.get_full_range()),
    })
}

fn filter_of(v: &Value) -> SymbolFilter {
    match v.as_str().unwrap_or("all") {
        "items" => SymbolFilter::ItemsOnly,
        "elems" => SymbolFilter::ItemsAndItemElements,
        _ => SymbolFilter::All,
    }
}

// predicate descriptor -> closure over (visit counter, symbol)
fn pred_eval(pd: &Value, k: usize, s: &Symbol) -> bool {
    match pd["kind"].as_str().unwrap_or("") {
        "nth" => pd["k"].as_u64() == Some(k as u64),
        "class" => pd["c"].as_str() == Some(sym_class(s)),
        "name" => s.get_name().as_deref() == pd["n"].as_str(),
        "all" => true,
        "none" => false,
        _ => false,
    }
}

// ---------------------------------------------------------------------------------------
// Scenario execution
// ---------------------------------------------------------------------------------------

struct Ctx {
    parsers: HashMap<u64, P>,
    // the texts currently held per instance, in insertion order (used to rebuild the same contents inside
    // another thread without requiring Parser to be Send or Sync)
    texts: HashMap<u64, Vec<(PathBuf, String)>>,
    scratch: PathBuf,
}

fn remember(ctx: &mut Ctx, i: u64, id: &Path, text: Option<&str>) {
    let v = ctx.texts.entry(i).or_default();
    v.retain(|(p, _)| p != id);
    if let Some(t) = text {
        v.push((id.to_path_buf(), t.to_owned()));
    }
}

// ids and paths are relative names; every id is keyed as <scratch>/<name> so that add_content(id, ..)
// and add_file(path) address the same slot when id == path
fn idpath(ctx: &Ctx, op: &Value) -> (String, PathBuf) {
    let name = op["path"].as_str().or(op["id"].as_str()).unwrap_or("").to_owned();
    (name.clone(), ctx.scratch.join(&name))
}

fn idname(scratch: &Path, p: &Path) -> String {
    match p.strip_prefix(scratch) {
        Ok(r) => r.to_string_lossy().into_owned(),
        Err(_) => p.to_string_lossy().into_owned(),
    }
}

fn get_stage<'x>(ctx: &'x Ctx, i: u64, stage: &str) -> Option<Res> {
    let p = ctx.parsers.get(&i)?;
    Some(if stage == "parsed" { p.verif_parse_results().clone() } else { p.validate() })
}

fn exec_op(ctx: &mut Ctx, op: &Value, ev: &mut Map<String, Value>) {
    let i = op["i"].as_u64().unwrap_or(1);
    let name = op["op"].as_str().unwrap_or("");
    match name {
        // the built-in type tables of the public API, and the three lookup functions on probe strings
        "android" => {
            use aidl_parser::ast::AndroidTypeKind as K;
            let kinds = [K::IBinder, K::FileDescriptor, K::ParcelFileDescriptor, K::ParcelableHolder];
            let table: Vec<Value> = kinds
                .iter()
                .map(|k| json!({"name": k.get_name(), "qname": k.get_qualified_name(), "canq": k.can_be_qualified(), "musti": k.must_be_imported()}))
                .collect();
            let nm = |k: Option<K>| match k { Some(k) => json!([k.get_name()]), None => json!([]) };
            let mut probes = Vec::new();
            for pr in op["probes"].as_array().cloned().unwrap_or_default() {
                let t = pr.as_str().unwrap_or("");
                probes.push(json!({"s": t, "type_name": nm(K::from_type_name(t)), "name": nm(K::from_name(t)), "qualified": nm(K::from_qualified_name(t))}));
            }
            ev.insert("table".into(), json!(table));
            ev.insert("probes".into(), json!(probes));
        }
        // test-only ops used by `./check selftest` to exercise the hang / abort plumbing of the driver
        "sleep" => {
            std::thread::sleep(std::time::Duration::from_millis(op["ms"].as_u64().unwrap_or(0)));
        }
        "abort" => {
            std::process::abort();
        }
        "new" => {
            ctx.parsers.insert(i, Parser::new());
            ctx.texts.insert(i, Vec::new());
        }
        "add" => {
            let (idn, idp) = idpath(ctx, op);
            let text = op["text"].as_str().unwrap_or("");
            let _ = aidl_parser::diagnostic::verif_take_expected();
            let _ = aidl_parser::diagnostic::verif_take_locations();
            remember(ctx, i, &idp, Some(text));
            let p = ctx.parsers.entry(i).or_insert_with(Parser::new);
            p.add_content(idp.clone(), text);
            let exp = aidl_parser::diagnostic::verif_take_expected();
            let locs = aidl_parser::diagnostic::verif_take_locations();
            if op["parsed"].as_bool().unwrap_or(false) {
                let fr = &p.verif_parse_results()[&idp];
                let (v, _) = project_result(fr, None, &idn, &ctx.scratch.clone(), Some(&locs));
                ev.insert("pobs".into(), v);
                ev.insert("expected".into(), json!(exp));
            }
        }
        "addfile" => {
            let (_idn, idp) = idpath(ctx, op);
            let mode = op["mode"].as_str().unwrap_or("ok");
            if let Some(dir) = idp.parent() {
                let _ = std::fs::create_dir_all(dir);
            }
            match mode {
                "ok" => {
                    // leave an identical file untouched (same length and modification time as at the last load)
                    let want = op["text"].as_str().unwrap_or("").as_bytes().to_vec();
                    if std::fs::read(&idp).ok().as_deref() != Some(&want[..]) {
                        std::fs::write(&idp, want).unwrap()
                    }
                }
                "badutf8" => {
                    let mut b = op["text"].as_str().unwrap_or("").as_bytes().to_vec();
                    b.extend_from_slice(&[0xff, 0xfe, 0x80]);
                    std::fs::write(&idp, b).unwrap()
                }
                _ => {
                    let _ = std::fs::remove_file(&idp);
                }
            }
            if mode == "ok" {
                remember(ctx, i, &idp, Some(op["text"].as_str().unwrap_or("")));
            }
            let p = ctx.parsers.entry(i).or_insert_with(Parser::new);
            let r = p.add_file(&idp);
            ev.insert("ret".into(), json!(if r.is_ok() { "ok" } else { "err" }));
        }
        "remove" => {
            let (_idn, idp) = idpath(ctx, op);
            remember(ctx, i, &idp, None);
            let p = ctx.parsers.entry(i).or_insert_with(Parser::new);
            p.remove_content(idp);
        }
        "validate" => {
            let detail = op["detail"].as_str().unwrap_or("full");
            let scratch = ctx.scratch.clone();
            let p = ctx.parsers.entry(i).or_insert_with(Parser::new);
            let res: Res = if op["thread"].as_str() == Some("same-object") {
                // the SAME parser object validated from a fresh thread while this thread waits (no concurrent access;
                // the wrapper only silences the Send / Sync requirement, which a change to the crate must not be able to
                // turn into a build failure of the harness)
                struct Ptr(*const P);
                unsafe impl Send for Ptr {}
                let ptr = Ptr(p as *const P);
                std::thread::spawn(move || {
                    let ptr = ptr;
                    unsafe { (*ptr.0).validate() }
                })
                .join()
                .unwrap()
            } else if op["thread"].as_bool().unwrap_or(false) {
                // another thread (fresh hash keys): a parser built there from the same (id, content) pairs
                let texts = ctx.texts.get(&i).cloned().unwrap_or_default();
                std::thread::spawn(move || {
                    let mut q: P = Parser::new();
                    for (id, t) in &texts {
                        q.add_content(id.clone(), t);
                    }
                    q.validate()
                })
                .join()
                .unwrap()
            } else {
                p.validate()
            };
            let parsed = p.verif_parse_results();
            let mut keys: Vec<String> = Vec::new();
            let mut rids: Vec<Value> = Vec::new();
            let mut obs: BTreeMap<String, Value> = BTreeMap::new();
            for (k, fr) in res.iter() {
                let kn = idname(&scratch, k);
                keys.push(kn.clone());
                rids.push(json!([kn, idname(&scratch, &fr.id)]));
                let (v, _) = project_result(fr, parsed.get(k), &kn, &scratch, None);
                obs.insert(kn, v);
            }
            keys.sort();
            let mut digs = Map::new();
            let mut sdigs = Map::new();
            let mut kk = Vec::new();
            for (k, v) in obs.iter() {
                digs.insert(k.clone(), Value::String(digest(v)));
                // order-insensitive digest: the diagnostics as a sorted bag
                let mut v2 = v.clone();
                if let Some(ds) = v2["diags"].as_array_mut() {
                    ds.sort_by_key(|d| serde_json::to_string(d).unwrap());
                }
                sdigs.insert(k.clone(), Value::String(digest(&v2)));
            }
            // which key each file registers, and with which kind (read off the returned trees)
            for (k, fr) in res.iter() {
                if let Some(f) = &fr.ast {
                    let kind = match f.item {
                        ast::Item::Interface(_) => "interface",
                        ast::Item::Parcelable(_) => "parcelable",
                        ast::Item::Enum(_) => "enum",
                    };
                    kk.push(json!([idname(&scratch, k), f.get_key(), kind]));
                }
            }
            kk.sort_by_key(|x| x.to_string());
            // the import statements of each file as stored in its tree: [path, name]
            let mut imps = Map::new();
            for (k, fr) in res.iter() {
                if let Some(f) = &fr.ast {
                    let v: Vec<Value> = f.imports.iter().map(|i| json!([i.path, i.name])).collect();
                    if !v.is_empty() {
                        imps.insert(idname(&scratch, k), Value::Array(v));
                    }
                }
            }
            ev.insert("imps".into(), Value::Object(imps));
            rids.sort_by_key(|x| x.to_string());
            ev.insert("keys".into(), json!(keys));
            ev.insert("rids".into(), json!(rids));
            ev.insert("dig".into(), Value::Object(digs));
            ev.insert("sdig".into(), Value::Object(sdigs));
            ev.insert("kk".into(), json!(kk));
            if detail == "full" {
                ev.insert("obs".into(), Value::Array(obs.into_values().collect()));
            }
        }
        "walk" | "filter" | "find" | "finds" | "filters" | "lookups" | "walktypes" | "walkmethods" | "walkargs" | "key" | "roundtrip" => {
            let (idn, idp) = idpath(ctx, op);
            let stage = op["stage"].as_str().unwrap_or("validated");
            let res = match get_stage(ctx, i, stage) {
                Some(r) => r,
                None => {
                    ev.insert("out".into(), json!("noparser"));
                    return;
                }
            };
            let fr = match res.get(&idp) {
                Some(fr) => fr,
                None => {
                    ev.insert("out".into(), json!("noid"));
                    return;
                }
            };
            let (_v, pr) = project_result(fr, None, &idn, &ctx.scratch, None);
            let astv = match &fr.ast {
                Some(x) => x,
                None => {
                    ev.insert("out".into(), json!("notree"));
                    return;
                }
            };
            let filt = filter_of(&op["filter"]);
            ev.insert("nodes".into(), Value::Array(pr.nodes.clone()));
            // which key each file of this instance registers (context for names of resolved types)
            let mut kk = Vec::new();
            for (k, fr2) in res.iter() {
                if let Some(f) = &fr2.ast {
                    let kind = match f.item {
                        ast::Item::Interface(_) => "interface",
                        ast::Item::Parcelable(_) => "parcelable",
                        ast::Item::Enum(_) => "enum",
                    };
                    kk.push(json!([idname(&ctx.scratch, k), f.get_key(), kind]));
                }
            }
            kk.sort_by_key(|x| x.to_string());
            ev.insert("kk".into(), json!(kk));
            match name {
                "walk" => {
                    let mut out = Vec::new();
                    traverse::walk_symbols(astv, filt, |s| out.push(sym_rec(&s, &pr)));
                    ev.insert("syms".into(), Value::Array(out));
                }
                "filter" => {
                    let mut k = 0usize;
                    let v = traverse::filter_symbols(astv, filt, |s| {
                        k += 1;
                        pred_eval(&op["pred"], k, s)
                    });
                    ev.insert("paths".into(), Value::Array(v.iter().map(|s| sym_path(s, &pr)).collect()));
                }
                "find" => {
                    let mut k = 0usize;
                    let v = traverse::find_symbol(astv, filt, |s| {
                        k += 1;
                        pred_eval(&op["pred"], k, s)
                    });
                    ev.insert("found".into(), match v { Some(s) => json!([sym_path(&s, &pr)]), None => json!([]) });
                }
                "finds" => {
                    let mut out = Vec::new();
                    for pd in op["preds"].as_array().cloned().unwrap_or_default() {
                        let mut k = 0usize;
                        let v = traverse::find_symbol(astv, filt, |s| {
                            k += 1;
                            pred_eval(&pd, k, s)
                        });
                        out.push(match v { Some(s) => json!([sym_path(&s, &pr)]), None => json!([]) });
                    }
                    ev.insert("found".into(), Value::Array(out));
                }
                "filters" => {
                    let mut out = Vec::new();
                    for pd in op["preds"].as_array().cloned().unwrap_or_default() {
                        let mut k = 0usize;
                        let v = traverse::filter_symbols(astv, filt, |s| {
                            k += 1;
                            pred_eval(&pd, k, s)
                        });
                        out.push(Value::Array(v.iter().map(|s| sym_path(s, &pr)).collect()));
                    }
                    ev.insert("paths".into(), Value::Array(out));
                }
                "lookups" => {
                    let mut out = Vec::new();
                    if let Some(ps) = op["positions"].as_array() {
                        for lc in ps {
                            let l = lc[0].as_u64().unwrap_or(0) as usize;
                            let c = lc[1].as_u64().unwrap_or(0) as usize;
                            let v = traverse::find_symbol_at_line_col(astv, filt, (l, c));
                            out.push(match v { Some(s) => json!([sym_path(&s, &pr)]), None => json!([]) });
                        }
                    }
                    ev.insert("found".into(), Value::Array(out));
                }
                "walktypes" => {
                    let mut out = Vec::new();
                    traverse::walk_types(astv, |t| out.push(sym_path(&Symbol::Type(t), &pr)));
                    ev.insert("paths".into(), Value::Array(out));
                }
                "walkmethods" => {
                    let mut out = Vec::new();
                    traverse::walk_methods(astv, |m| {
                        out.push(match pr.addr.get(&(T_METHOD, a(m))) { Some(ix) => pr.nodes[*ix]["p"].clone(), None => json!(["?unknown-node"]) })
                    });
                    ev.insert("paths".into(), Value::Array(out));
                }
                "walkargs" => {
                    let mut out = Vec::new();
                    traverse::walk_args(astv, |m, ar| {
                        let mp = match pr.addr.get(&(T_METHOD, a(m))) { Some(ix) => pr.nodes[*ix]["p"].clone(), None => json!(["?unknown-node"]) };
                        let ap = match pr.addr.get(&(T_ARG, a(ar))) { Some(ix) => pr.nodes[*ix]["p"].clone(), None => json!(["?unknown-node"]) };
                        out.push(json!([mp, ap]));
                    });
                    ev.insert("pairs".into(), Value::Array(out));
                }
                "key" => {
                    ev.insert("key".into(), json!(astv.get_key()));
                }
                "roundtrip" => {
                    let s = ron::to_string(astv);
                    match s {
                        Err(e) => {
                            ev.insert("rt".into(), json!("ser-error"));
                            ev.insert("err".into(), json!(e.to_string()));
                        }
                        Ok(s) => match ron::from_str::<ast::Aidl>(&s) {
                            Err(e) => {
                                ev.insert("rt".into(), json!("de-error"));
                                ev.insert("err".into(), json!(e.to_string()));
                            }
                            Ok(back) => {
                                let mut p2 = Proj::default();
                                p2.aidl(&back);
                                ev.insert("rt".into(), json!("ok"));
                                ev.insert("eq".into(), json!(&back == astv));
                                ev.insert("before".into(), Value::Array(pr.nodes.clone()));
                                ev.insert("after".into(), Value::Array(p2.nodes));
                            }
                        },
                    }
                }
                _ => {}
            }
        }
        _ => {
            ev.insert("out".into(), json!("badop"));
        }
    }
}

fn main() {
    let args: Vec<String> = std::env::args().collect();
    if args.len() < 5 || args[1] != "run" {
        eprintln!("usage: harness run <scenarios.ndjson> <trace.ndjson> <scratch-dir>");
        std::process::exit(2);
    }
    let inp = std::io::BufReader::new(std::fs::File::open(&args[2]).expect("open scenarios"));
    let mut out = BufWriter::new(std::fs::File::create(&args[3]).expect("create trace"));
    let scratch = PathBuf::from(&args[4]);
    std::fs::create_dir_all(&scratch).ok();
    let timeout_s: u64 = std::env::var("VERIF_OP_TIMEOUT").ok().and_then(|s| s.parse().ok()).unwrap_or(20);

    // silence panic messages of the code under test (they are data, logged as events)
    std::panic::set_hook(Box::new(|_| {}));

    // watchdog: if one op takes longer than the limit, exit(3); the driver sees the
    // "begin" marker without an "end" and records a timeout for that op.
    let beat = Arc::new(AtomicU64::new(0));
    let beat2 = beat.clone();
    std::thread::spawn(move || {
        let mut last = u64::MAX;
        let mut same = 0u64;
        loop {
            std::thread::sleep(std::time::Duration::from_millis(500));
            let b = beat2.load(Ordering::Relaxed);
            if b == u64::MAX - 1 {
                return;
            }
            if b == last {
                same += 1;
                if same * 500 >= timeout_s * 1000 {
                    std::process::exit(3);
                }
            } else {
                same = 0;
                last = b;
            }
        }
    });

    for line in inp.lines() {
        let line = line.expect("read");
        if line.trim().is_empty() {
            continue;
        }
        let sc: Value = serde_json::from_str(&line).expect("scenario json");
        let sid = sc["sid"].clone();
        let mut ctx = Ctx { parsers: HashMap::new(), texts: HashMap::new(), scratch: scratch.clone() };
        writeln!(out, "{}", json!({"ev": "Reset", "sid": sid, "out": "ok"})).unwrap();
        let ops = sc["ops"].as_array().cloned().unwrap_or_default();
        for (n, op) in ops.iter().enumerate() {
            // marker, flushed before the call: lets the driver attribute aborts / hangs
            writeln!(out, "{}", json!({"ev": "Begin", "sid": sid, "n": n})).unwrap();
            out.flush().unwrap();
            beat.fetch_add(1, Ordering::Relaxed);
            let mut ev = Map::new();
            ev.insert("ev".into(), json!(op["op"]));
            ev.insert("sid".into(), sid.clone());
            ev.insert("n".into(), json!(n));
            for k in ["i", "id", "path", "mode", "filter", "pred", "preds", "positions", "stage", "m", "cid", "thread", "proc", "pieces", "garbage", "atoms", "probes"] {
                if !op[k].is_null() {
                    ev.insert(k.into(), op[k].clone());
                }
            }
            let r = catch_unwind(AssertUnwindSafe(|| {
                let mut e2 = Map::new();
                exec_op(&mut ctx, op, &mut e2);
                e2
            }));
            match r {
                Ok(e2) => {
                    if !e2.contains_key("out") {
                        ev.insert("out".into(), json!("ok"));
                    }
                    for (k, v) in e2 {
                        ev.insert(k, v);
                    }
                }
                Err(p) => {
                    let msg = if let Some(s) = p.downcast_ref::<&str>() {
                        s.to_string()
                    } else if let Some(s) = p.downcast_ref::<String>() {
                        s.clone()
                    } else {
                        "panic".to_owned()
                    };
                    ev.insert("out".into(), json!("panic"));
                    ev.insert("panic".into(), json!(msg));
                }
            }
            writeln!(out, "{}", Value::Object(ev)).unwrap();
        }
    }
    out.flush().unwrap();
    beat.store(u64::MAX - 1, Ordering::Relaxed);
}

#[allow(dead_code)]
fn _unused(_: Value) -> Value {
    esc("")
}
